#!/bin/sh
set -e
cd /verif/engine
export GOFLAGS=-mod=mod GOPROXY=off GOSUMDB=off GOTOOLCHAIN=local
go build -o /verif/bin/govc .
