package coroutines_test

import (
	"math"
	"testing"

	"github.com/resonatehq/resonate/internal/kernel/t_api"
)

// F16 (C09): ttl > MaxInt64 - now makes expiresAt = c.Time() + ttl wrap around:
// the lease is already expired when it is granted.
func TestVerifReplayF16Lock(t *testing.T) {
	h := newVfHarness(t)
	a := h.submit(&t_api.Request{Kind: t_api.AcquireLock, AcquireLock: &t_api.AcquireLockRequest{ResourceId: "r", ExecutionId: "e1", ProcessId: "p1", Ttl: math.MaxInt64}})
	h.run(1000, a)
	if a.err != nil {
		t.Fatal(a.err)
	}
	l := a.res.AcquireLock
	if l.Status == t_api.StatusCreated && l.Lock.ExpiresAt < 1000 {
		t.Fatalf("VERIF-REPRODUCED F16: lock granted at t=1000 with ttl=MaxInt64 has expiresAt=%d (already expired; the next sweep frees a held lock)", l.Lock.ExpiresAt)
	}
}

// F16 (C07): the same wrap-around for the claim lease of a task.
func TestVerifReplayF16Claim(t *testing.T) {
	h := newVfHarness(t)
	c := h.submit(&t_api.Request{Kind: t_api.CreatePromiseAndTask, CreatePromiseAndTask: &t_api.CreatePromiseAndTaskRequest{
		Promise: &t_api.CreatePromiseRequest{Id: "p", Timeout: 1 << 40, Tags: map[string]string{"resonate:invoke": "default"}},
		Task:    &t_api.CreateTaskRequest{PromiseId: "p", ProcessId: "w", Ttl: math.MaxInt64, Timeout: 1 << 40},
	}})
	h.run(1000, c)
	if c.err != nil {
		t.Skipf("create with task not possible in this configuration: %v", c.err)
	}
	tk := c.res.CreatePromiseAndTask.Task
	if tk != nil && tk.ExpiresAt < 1000 {
		t.Fatalf("VERIF-REPRODUCED F16: task claimed at t=1000 with ttl=MaxInt64 has expiresAt=%d (lease expired at birth)", tk.ExpiresAt)
	}
}
