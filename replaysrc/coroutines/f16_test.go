package coroutines_test

import (
	"math"
	"testing"

	"github.com/resonatehq/resonate/internal/kernel/t_api"
)

// F16 (C09): ttl > MaxInt64 - now makes expiresAt = c.Time() + ttl wrap around:
// the lease is already expired when it is granted.
func TestVerifReplayF16Lock(t *testing.T) {
	h := newVfHarness(t)
	a := h.submit(&t_api.Request{Kind: t_api.AcquireLock, AcquireLock: &t_api.AcquireLockRequest{ResourceId: "r", ExecutionId: "e1", ProcessId: "p1", Ttl: math.MaxInt64}})
	h.run(1000, a)
	if a.err != nil {
		t.Fatal(a.err)
	}
	l := a.res.AcquireLock
	if l.Status == t_api.StatusCreated && l.Lock.ExpiresAt < 1000 {
		t.Fatalf("VERIF-REPRODUCED F16: lock granted at t=1000 with ttl=MaxInt64 has expiresAt=%d (already expired; the next sweep frees a held lock)", l.Lock.ExpiresAt)
	}
}

// F16 (C07): the same wrap-around for the claim lease of a task.
func TestVerifReplayF16Claim(t *testing.T) {
	h := newVfHarness(t)
	c := h.submit(&t_api.Request{Kind: t_api.CreatePromiseAndTask, CreatePromiseAndTask: &t_api.CreatePromiseAndTaskRequest{
		Promise: &t_api.CreatePromiseRequest{Id: "p", Timeout: 1 << 40, Tags: map[string]string{"resonate:invoke": "default"}},
		Task:    &t_api.CreateTaskRequest{PromiseId: "p", ProcessId: "w", Ttl: math.MaxInt64, Timeout: 1 << 40},
	}})
	h.run(1000, c)
	if c.err != nil {
		t.Skipf("create with task not possible in this configuration: %v", c.err)
	}
	tk := c.res.CreatePromiseAndTask.Task
	if tk != nil && tk.ExpiresAt < 1000 {
		t.Fatalf("VERIF-REPRODUCED F16: task claimed at t=1000 with ttl=MaxInt64 has expiresAt=%d (lease expired at birth)", tk.ExpiresAt)
	}
}

// F16 (C07): the wrap-around at the ClaimTask site itself.
func TestVerifReplayF16ClaimTask(t *testing.T) {
	h := newVfHarness(t)
	c := h.submit(&t_api.Request{Kind: t_api.CreatePromise, CreatePromise: &t_api.CreatePromiseRequest{Id: "p", Timeout: 1 << 40, Tags: map[string]string{"resonate:invoke": "default"}}})
	h.run(1000, c)
	if c.err != nil {
		t.Fatal(c.err)
	}
	k := h.submit(&t_api.Request{Kind: t_api.ClaimTask, ClaimTask: &t_api.ClaimTaskRequest{Id: "__invoke:p", Counter: 1, ProcessId: "w", Ttl: math.MaxInt64}})
	h.run(2000, k)
	if k.err != nil {
		t.Fatal(k.err)
	}
	if k.res.ClaimTask.Status != t_api.StatusCreated {
		t.Skipf("claim not possible in this configuration: %d", k.res.ClaimTask.Status)
	}
	if tk := k.res.ClaimTask.Task; tk.ExpiresAt < 2000 {
		t.Fatalf("VERIF-REPRODUCED F16: task claimed at t=2000 with ttl=MaxInt64 has expiresAt=%d (lease expired at birth)", tk.ExpiresAt)
	}
}
