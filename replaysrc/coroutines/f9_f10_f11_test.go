package coroutines_test

import (
	"fmt"
	"testing"

	"github.com/resonatehq/resonate/internal/app/coroutines"
	"github.com/resonatehq/resonate/internal/kernel/t_api"
)

func vfCreateSchedule(t *testing.T, h *vfHarness, id, promiseId string, tags map[string]string) {
	c := h.submit(&t_api.Request{Kind: t_api.CreateSchedule, CreateSchedule: &t_api.CreateScheduleRequest{
		Id: id, Cron: "* * * * *", PromiseId: promiseId, PromiseTimeout: 1000000, PromiseTags: tags}})
	h.run(1000, c)
	if c.err != nil || c.res.CreateSchedule.Status != t_api.StatusCreated {
		t.Fatalf("schedule not created: %v %v", c.err, c.res)
	}
}

// runBackground runs one instance of the background coroutine to completion on the kernel.
func vfBackground(h *vfHarness, name string, now int64) (panicked interface{}) {
	defer func() { panicked = recover() }()
	h.system.AddBackground(name, coroutines.SchedulePromises)
	for i := 0; i < 6; i++ {
		h.tick(now + int64(i))
	}
	return nil
}

// F9 (C13, C10): a stored schedule whose promise id template does not parse brings the
// background worker down (template.Must panics) every time it is due.
func TestVerifReplayF9TemplatePanic(t *testing.T) {
	h := newVfHarness(t)
	vfCreateSchedule(t, h, "s", "{{.id", nil)
	if p := vfBackground(h, "SchedulePromises", 100000000); p != nil {
		t.Fatalf("VERIF-REPRODUCED F9: firing the stored schedule panics: %v", p)
	}
}

// F10 (C13, C10, C08): a scheduled promise whose tags route it makes SchedulePromises
// dereference Results[0].CreatePromise, which is nil for a CreatePromiseAndTask result.
func TestVerifReplayF10RoutedScheduleNilDeref(t *testing.T) {
	h := newVfHarness(t)
	vfCreateSchedule(t, h, "s", "p.{{.timestamp}}", map[string]string{"resonate:invoke": "poll://group/id"})
	if p := vfBackground(h, "SchedulePromises", 100000000); p != nil {
		t.Fatalf("VERIF-REPRODUCED F10: firing a routed schedule panics: %v", p)
	}
}

// F11 (C20, C10): the id template is expanded with html/template, so markup characters of the
// schedule id are escaped in the derived promise id.
func TestVerifReplayF11HtmlEscaping(t *testing.T) {
	h := newVfHarness(t)
	vfCreateSchedule(t, h, "a<b&c", "{{.id}}.x", nil)
	if p := vfBackground(h, "SchedulePromises", 100000000); p != nil {
		t.Fatalf("unexpected panic %v", p)
	}
	want := "a<b&c.x"
	rd := h.submit(&t_api.Request{Kind: t_api.ReadPromise, ReadPromise: &t_api.ReadPromiseRequest{Id: want}})
	h.run(100000010, rd)
	if rd.err != nil {
		t.Fatal(rd.err)
	}
	if rd.res.ReadPromise.Status != t_api.StatusOK {
		esc := h.submit(&t_api.Request{Kind: t_api.ReadPromise, ReadPromise: &t_api.ReadPromiseRequest{Id: "a&lt;b&amp;c.x"}})
		h.run(100000011, esc)
		t.Fatalf("VERIF-REPRODUCED F11: scheduled promise %q does not exist (status %d); escaped id exists: %v", want, rd.res.ReadPromise.Status,
			fmt.Sprint(esc.res.ReadPromise.Status == t_api.StatusOK))
	}
}
