package coroutines_test

// Replay harness of /verif (injected with go test -overlay, never written to
// the repository): the real kernel (system.Tick), the real coroutines and a
// real in-memory sqlite store. The only double is the AIO layer: submissions
// of a tick are executed in dispatch (FIFO) order when the kernel flushes,
// completions are delivered at the beginning of the next tick -- the
// behaviour of the production AIO with its single sqlite worker.

import (
	"database/sql"
	"path/filepath"
	"testing"
	"time"

	"github.com/prometheus/client_golang/prometheus"
	"github.com/resonatehq/resonate/internal/api"
	"github.com/resonatehq/resonate/internal/app/coroutines"
	"github.com/resonatehq/resonate/internal/app/subsystems/aio/router"
	"github.com/resonatehq/resonate/internal/app/subsystems/aio/store/sqlite"
	"github.com/resonatehq/resonate/internal/kernel/bus"
	"github.com/resonatehq/resonate/internal/kernel/system"
	"github.com/resonatehq/resonate/internal/kernel/t_aio"
	"github.com/resonatehq/resonate/internal/kernel/t_api"
	"github.com/resonatehq/resonate/internal/metrics"
)

type vfAIO struct {
	sqes   []*bus.SQE[t_aio.Submission, t_aio.Completion]
	cqes   []*bus.CQE[t_aio.Submission, t_aio.Completion]
	store  *sqlite.SqliteStore
	router *router.Router
	// hold, when set, keeps matching store submissions back for one flush
	hold func(*t_aio.Submission) bool
	held []*bus.SQE[t_aio.Submission, t_aio.Completion]
}

func (a *vfAIO) String() string                               { return "vfAIO" }
func (a *vfAIO) Start() error                                 { return nil }
func (a *vfAIO) Stop() error                                  { return nil }
func (a *vfAIO) Shutdown()                                    {}
func (a *vfAIO) Errors() <-chan error                         { return nil }
func (a *vfAIO) Signal(<-chan interface{}) <-chan interface{} { panic("not implemented") }
func (a *vfAIO) Dispatch(s *t_aio.Submission, cb func(*t_aio.Completion, error)) {
	a.EnqueueSQE(&bus.SQE[t_aio.Submission, t_aio.Completion]{Id: s.Tags["id"], Submission: s, Callback: cb})
}
func (a *vfAIO) EnqueueSQE(sqe *bus.SQE[t_aio.Submission, t_aio.Completion]) { a.sqes = append(a.sqes, sqe) }
func (a *vfAIO) EnqueueCQE(cqe *bus.CQE[t_aio.Submission, t_aio.Completion]) { a.cqes = append(a.cqes, cqe) }
func (a *vfAIO) DequeueCQE(n int) []*bus.CQE[t_aio.Submission, t_aio.Completion] {
	n = min(n, len(a.cqes))
	out := a.cqes[:n]
	a.cqes = a.cqes[n:]
	return out
}
func (a *vfAIO) Flush(int64) {
	var storeSqes, routerSqes []*bus.SQE[t_aio.Submission, t_aio.Completion]
	pending := append(a.held, a.sqes...)
	a.held, a.sqes = nil, nil
	for _, sqe := range pending {
		switch sqe.Submission.Kind {
		case t_aio.Store:
			if a.hold != nil && a.hold(sqe.Submission) {
				a.held = append(a.held, sqe)
				continue
			}
			storeSqes = append(storeSqes, sqe)
		case t_aio.Router:
			routerSqes = append(routerSqes, sqe)
		default:
			panic("unexpected submission kind")
		}
	}
	a.hold = nil
	if len(routerSqes) > 0 {
		a.cqes = append(a.cqes, a.router.Process(routerSqes)...)
	}
	if len(storeSqes) > 0 {
		a.cqes = append(a.cqes, a.store.Process(storeSqes)...)
	}
}

type vfResult struct {
	done bool
	res  *t_api.Response
	err  error
}

type vfHarness struct {
	t      *testing.T
	api    api.API
	aio    *vfAIO
	system *system.System
	now    int64
	db     *sql.DB
}

func newVfHarness(t *testing.T) *vfHarness {
	m := metrics.New(prometheus.NewRegistry())
	dbPath := vfDBPath(t)
	store, err := sqlite.New(nil, m, &sqlite.Config{Size: 100, BatchSize: 100, Path: dbPath, TxTimeout: 10 * time.Second})
	if err != nil {
		t.Fatal(err)
	}
	if err := store.Start(nil); err != nil {
		t.Fatal(err)
	}
	t.Cleanup(func() { _ = store.Stop() })
	r, err := router.New(nil, m, &router.Config{Workers: 1})
	if err != nil {
		t.Fatal(err)
	}
	a := api.New(100, m)
	io := &vfAIO{store: store, router: r}
	s := system.New(a, io, &system.Config{Url: "http://resonate",CoroutineMaxSize: 100, SubmissionBatchSize: 100, CompletionBatchSize: 100, PromiseBatchSize: 100, TaskBatchSize: 100, ScheduleBatchSize: 100}, m)
	s.AddOnRequest(t_api.ReadPromise, coroutines.ReadPromise)
	s.AddOnRequest(t_api.SearchPromises, coroutines.SearchPromises)
	s.AddOnRequest(t_api.CreatePromise, coroutines.CreatePromise)
	s.AddOnRequest(t_api.CreatePromiseAndTask, coroutines.CreatePromiseAndTask)
	s.AddOnRequest(t_api.CompletePromise, coroutines.CompletePromise)
	s.AddOnRequest(t_api.CreateCallback, coroutines.CreateCallback)
	s.AddOnRequest(t_api.CreateSubscription, coroutines.CreateSubscription)
	s.AddOnRequest(t_api.ReadSchedule, coroutines.ReadSchedule)
	s.AddOnRequest(t_api.CreateSchedule, coroutines.CreateSchedule)
	s.AddOnRequest(t_api.DeleteSchedule, coroutines.DeleteSchedule)
	s.AddOnRequest(t_api.AcquireLock, coroutines.AcquireLock)
	s.AddOnRequest(t_api.ReleaseLock, coroutines.ReleaseLock)
	s.AddOnRequest(t_api.HeartbeatLocks, coroutines.HeartbeatLocks)
	s.AddOnRequest(t_api.ClaimTask, coroutines.ClaimTask)
	s.AddOnRequest(t_api.CompleteTask, coroutines.CompleteTask)
	s.AddOnRequest(t_api.HeartbeatTasks, coroutines.HeartbeatTasks)
	s.AddOnRequest(t_api.SearchSchedules, coroutines.SearchSchedules)
	db, err := sql.Open("sqlite3", dbPath)
	if err != nil {
		t.Fatal(err)
	}
	t.Cleanup(func() { _ = db.Close() })
	return &vfHarness{t: t, api: a, aio: io, system: s, db: db}
}

var vfReqId int

// submit enqueues a request; the result is filled in when the kernel answers.
func (h *vfHarness) submit(req *t_api.Request) *vfResult {
	vfReqId++
	if req.Tags == nil {
		req.Tags = map[string]string{}
	}
	req.Tags["id"] = time.Now().Format("150405") + "-" + string(rune('a'+vfReqId%26)) + "-" + time.Duration(vfReqId).String()
	out := &vfResult{}
	h.api.EnqueueSQE(&bus.SQE[t_api.Request, t_api.Response]{
		Id:         req.Tags["id"],
		Submission: req,
		Callback: func(res *t_api.Response, err error) {
			out.done, out.res, out.err = true, res, err
		},
	})
	return out
}

// tick advances the kernel by one tick at the given clock value and delivers api completions.
func (h *vfHarness) tick(now int64) {
	h.now = now
	h.system.Tick(now)
}

func (h *vfHarness) run(now int64, res ...*vfResult) {
	for i := 0; i < 20; i++ {
		all := true
		for _, r := range res {
			if !r.done {
				all = false
			}
		}
		if all {
			return
		}
		h.tick(now)
	}
	h.t.Fatal("request did not complete within 20 ticks")
}

func vfDBPath(t *testing.T) string { return filepath.Join(t.TempDir(), "resonate.db") }

// count runs a COUNT query through the observer connection.
func (h *vfHarness) count(t *testing.T, q string) int {
	var n int
	if err := h.db.QueryRow(q).Scan(&n); err != nil {
		t.Fatal(err)
	}
	return n
}
