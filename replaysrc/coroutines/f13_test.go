package coroutines_test

import (
	"testing"

	"github.com/resonatehq/resonate/internal/kernel/t_aio"
	"github.com/resonatehq/resonate/internal/kernel/t_api"
	"github.com/resonatehq/resonate/pkg/promise"
)

// F13 (C05, C02): a registration whose guarded insert hits nothing because the
// promise was completed between the coroutine's read and its insert is
// answered 200 with the stale PENDING promise and no registration: the caller
// waits for a task that will never exist.
func TestVerifReplayF13Callback(t *testing.T) {
	h := newVfHarness(t)
	c := h.submit(&t_api.Request{Kind: t_api.CreatePromise, CreatePromise: &t_api.CreatePromiseRequest{Id: "p", Timeout: 1 << 40}})
	h.run(1000, c)
	root := h.submit(&t_api.Request{Kind: t_api.CreatePromise, CreatePromise: &t_api.CreatePromiseRequest{Id: "root", Timeout: 1 << 40}})
	h.run(1000, root)

	// the completion reads "pending" in tick 1; its guarded update is delayed by one flush (an
	// admissible schedule of the store queue), the registration reads "pending" in tick 2, and
	// in tick 3 the update is executed before the registration's guarded insert.
	done := h.submit(&t_api.Request{Kind: t_api.CompletePromise, CompletePromise: &t_api.CompletePromiseRequest{Id: "p", State: promise.Resolved}})
	h.tick(1001)
	reg := h.submit(&t_api.Request{Kind: t_api.CreateCallback, CreateCallback: &t_api.CreateCallbackRequest{PromiseId: "p", RootPromiseId: "root", Timeout: 1 << 40, Recv: []byte(`"default"`)}})
	h.aio.hold = func(s *t_aio.Submission) bool {
		return s.Store != nil && s.Store.Transaction.Commands[0].Kind == t_aio.UpdatePromise
	}
	h.tick(1001)
	h.run(1001, done, reg)
	if done.err != nil || reg.err != nil {
		t.Fatalf("unexpected errors %v %v", done.err, reg.err)
	}
	if done.res.CompletePromise.Status != t_api.StatusCreated {
		t.Fatalf("completion did not take effect: %d", done.res.CompletePromise.Status)
	}
	r := reg.res.CreateCallback
	if (r.Status == t_api.StatusOK || r.Status == t_api.StatusCreated) && r.Promise != nil && r.Promise.State == promise.Pending && r.Callback == nil {
		// acknowledged, promise reported pending, yet no registration and the promise is completed
		rd := h.submit(&t_api.Request{Kind: t_api.ReadPromise, ReadPromise: &t_api.ReadPromiseRequest{Id: "p"}})
		h.run(1002, rd)
		t.Fatalf("VERIF-REPRODUCED F13: registration acknowledged with status %d and a PENDING promise, but the promise is %s and no callback exists",
			r.Status, rd.res.ReadPromise.Promise.State)
	}
}

func TestVerifReplayF13Subscription(t *testing.T) {
	h := newVfHarness(t)
	c := h.submit(&t_api.Request{Kind: t_api.CreatePromise, CreatePromise: &t_api.CreatePromiseRequest{Id: "p", Timeout: 1 << 40}})
	h.run(1000, c)
	done := h.submit(&t_api.Request{Kind: t_api.CompletePromise, CompletePromise: &t_api.CompletePromiseRequest{Id: "p", State: promise.Resolved}})
	h.tick(1001)
	reg := h.submit(&t_api.Request{Kind: t_api.CreateSubscription, CreateSubscription: &t_api.CreateSubscriptionRequest{Id: "s", PromiseId: "p", Timeout: 1 << 40, Recv: []byte(`"default"`)}})
	h.aio.hold = func(s *t_aio.Submission) bool {
		return s.Store != nil && s.Store.Transaction.Commands[0].Kind == t_aio.UpdatePromise
	}
	h.tick(1001)
	h.run(1001, done, reg)
	if done.err != nil || reg.err != nil {
		t.Fatalf("unexpected errors %v %v", done.err, reg.err)
	}
	r := reg.res.CreateSubscription
	if (r.Status == t_api.StatusOK || r.Status == t_api.StatusCreated) && r.Promise != nil && r.Promise.State == promise.Pending && r.Callback == nil {
		t.Fatalf("VERIF-REPRODUCED F13: subscription acknowledged with status %d and a PENDING promise, but the promise is completed and no subscription exists", r.Status)
	}
}
