package coroutines_test

import (
	"testing"

	"github.com/resonatehq/resonate/internal/kernel/t_api"
	"github.com/resonatehq/resonate/pkg/promise"
)

// F14 (C05): the ids derived for registrations are not injective: "__resume:%s:%s" maps the distinct pairs
// (root "a:b", promise "c") and (root "a", promise "b:c") to the same id "__resume:a:b:c". The second
// registration is answered "already registered" (200, no callback) although nothing is registered for its
// promise: when that promise completes no task is created and the awaiting root is never resumed.
func TestVerifReplayF14CallbackIdCollision(t *testing.T) {
	h := newVfHarness(t)
	for _, id := range []string{"c", "b:c", "a", "a:b"} {
		c := h.submit(&t_api.Request{Kind: t_api.CreatePromise, CreatePromise: &t_api.CreatePromiseRequest{Id: id, Timeout: 1 << 40}})
		h.run(1000, c)
		if c.err != nil {
			t.Fatal(c.err)
		}
	}
	r1 := h.submit(&t_api.Request{Kind: t_api.CreateCallback, CreateCallback: &t_api.CreateCallbackRequest{PromiseId: "c", RootPromiseId: "a:b", Timeout: 1 << 40, Recv: []byte(`"default"`)}})
	h.run(1001, r1)
	r2 := h.submit(&t_api.Request{Kind: t_api.CreateCallback, CreateCallback: &t_api.CreateCallbackRequest{PromiseId: "b:c", RootPromiseId: "a", Timeout: 1 << 40, Recv: []byte(`"default"`)}})
	h.run(1002, r2)
	if r1.err != nil || r2.err != nil {
		t.Fatalf("unexpected errors %v %v", r1.err, r2.err)
	}
	if r1.res.CreateCallback.Status != t_api.StatusCreated {
		t.Fatalf("first registration: status %d", r1.res.CreateCallback.Status)
	}
	second := r2.res.CreateCallback
	// completing "b:c" must create a resume task for root "a"
	done := h.submit(&t_api.Request{Kind: t_api.CompletePromise, CompletePromise: &t_api.CompletePromiseRequest{Id: "b:c", State: promise.Resolved}})
	h.run(1003, done)
	if done.err != nil {
		t.Fatal(done.err)
	}
	n := h.count(t, "SELECT COUNT(*) FROM tasks WHERE root_promise_id = 'a'")
	if second.Status == t_api.StatusOK && second.Callback == nil && n == 0 {
		t.Fatalf("VERIF-REPRODUCED F14: the registration (promise %q, root %q) was acknowledged with status %d and no callback because its derived id collides with the registration (promise %q, root %q); completing %q created %d tasks for root %q",
			"b:c", "a", second.Status, "c", "a:b", "b:c", n, "a")
	}
}

// F14 for subscriptions: "__notify:%s:%s" maps (promise "a:b", id "c") and (promise "a", id "b:c") to one id.
func TestVerifReplayF14SubscriptionIdCollision(t *testing.T) {
	h := newVfHarness(t)
	for _, id := range []string{"a:b", "a"} {
		c := h.submit(&t_api.Request{Kind: t_api.CreatePromise, CreatePromise: &t_api.CreatePromiseRequest{Id: id, Timeout: 1 << 40}})
		h.run(1000, c)
		if c.err != nil {
			t.Fatal(c.err)
		}
	}
	r1 := h.submit(&t_api.Request{Kind: t_api.CreateSubscription, CreateSubscription: &t_api.CreateSubscriptionRequest{Id: "c", PromiseId: "a:b", Timeout: 1 << 40, Recv: []byte(`"default"`)}})
	h.run(1001, r1)
	r2 := h.submit(&t_api.Request{Kind: t_api.CreateSubscription, CreateSubscription: &t_api.CreateSubscriptionRequest{Id: "b:c", PromiseId: "a", Timeout: 1 << 40, Recv: []byte(`"default"`)}})
	h.run(1002, r2)
	if r1.err != nil || r2.err != nil {
		t.Fatalf("unexpected errors %v %v", r1.err, r2.err)
	}
	if r1.res.CreateSubscription.Status != t_api.StatusCreated {
		t.Fatalf("first subscription: status %d", r1.res.CreateSubscription.Status)
	}
	done := h.submit(&t_api.Request{Kind: t_api.CompletePromise, CompletePromise: &t_api.CompletePromiseRequest{Id: "a", State: promise.Resolved}})
	h.run(1003, done)
	if done.err != nil {
		t.Fatal(done.err)
	}
	n := h.count(t, "SELECT COUNT(*) FROM tasks WHERE root_promise_id = 'a'")
	second := r2.res.CreateSubscription
	if second.Status == t_api.StatusOK && second.Callback == nil && n == 0 {
		t.Fatalf("VERIF-REPRODUCED F14: the subscription (promise %q, id %q) was acknowledged with status %d and no callback because its derived id collides with (promise %q, id %q); completing %q created %d notification tasks", "a", "b:c", second.Status, "a:b", "c", "a", n)
	}
}
