package coroutines_test

import (
	"database/sql"
	"testing"

	"github.com/resonatehq/resonate/internal/kernel/t_api"
	"github.com/resonatehq/resonate/pkg/promise"
)

// F17 (C05, C08): completePromise always issues CompleteTasks(root = promise id), also when its
// guarded UpdatePromise hits nothing. When two completions of one promise race, the loser's
// transaction completes the notification tasks the winner has just created from the subscriptions
// (their root is the promise itself): the subscriber is never notified.
func TestVerifReplayF17LosingCompletionKillsNotifications(t *testing.T) {
	h := newVfHarness(t)
	c := h.submit(&t_api.Request{Kind: t_api.CreatePromise, CreatePromise: &t_api.CreatePromiseRequest{Id: "p", Timeout: 1 << 40}})
	h.run(1000, c)
	s := h.submit(&t_api.Request{Kind: t_api.CreateSubscription, CreateSubscription: &t_api.CreateSubscriptionRequest{Id: "s", PromiseId: "p", Timeout: 1 << 40, Recv: []byte(`"default"`)}})
	h.run(1000, s)
	if s.err != nil || s.res.CreateSubscription.Status != t_api.StatusCreated {
		t.Fatalf("subscription not registered: %v", s.err)
	}
	// two completions of the same promise in the same tick: both read "pending"
	a := h.submit(&t_api.Request{Kind: t_api.CompletePromise, CompletePromise: &t_api.CompletePromiseRequest{Id: "p", State: promise.Resolved}})
	b := h.submit(&t_api.Request{Kind: t_api.CompletePromise, CompletePromise: &t_api.CompletePromiseRequest{Id: "p", State: promise.Rejected}})
	h.run(1001, a, b)
	if a.err != nil || b.err != nil {
		t.Fatalf("unexpected errors %v %v", a.err, b.err)
	}
	// the notification task of the subscription must still be deliverable (init), exactly one
	var state, n int
	rows, err := h.db.Query("SELECT state FROM tasks WHERE id = '__notify:p:s'")
	if err != nil {
		t.Fatal(err)
	}
	defer rows.Close()
	for rows.Next() {
		n++
		if err := rows.Scan(&state); err != nil {
			t.Fatal(err)
		}
	}
	if n != 1 {
		t.Fatalf("expected exactly one notification task, found %d", n)
	}
	if state != 1 {
		t.Fatalf("VERIF-REPRODUCED F17: the notification task created by the winning completion was completed (state %d) by the losing completion's transaction without ever being dispatched", state)
	}
}

var _ = sql.ErrNoRows
