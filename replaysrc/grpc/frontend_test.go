package grpc

// Replays of /verif for the gRPC front end (injected with go test -overlay): the real handlers
// on a stub kernel that answers every request with a scripted response or error.

import (
	"context"
	"fmt"
	"testing"

	"github.com/resonatehq/resonate/internal/app/subsystems/api"
	"github.com/resonatehq/resonate/internal/app/subsystems/api/grpc/pb"
	"github.com/resonatehq/resonate/internal/kernel/bus"
	"github.com/resonatehq/resonate/internal/kernel/t_api"
	"google.golang.org/grpc/codes"
	"google.golang.org/grpc/status"
)

type vfKernel struct {
	res  *t_api.Response
	err  error
	seen *t_api.Request
}

func (k *vfKernel) String() string                               { return "vfKernel" }
func (k *vfKernel) Start() error                                 { return nil }
func (k *vfKernel) Stop() error                                  { return nil }
func (k *vfKernel) Shutdown()                                    {}
func (k *vfKernel) Done() bool                                   { return false }
func (k *vfKernel) Errors() <-chan error                         { return nil }
func (k *vfKernel) Signal(<-chan interface{}) <-chan interface{} { panic("not implemented") }
func (k *vfKernel) EnqueueSQE(sqe *bus.SQE[t_api.Request, t_api.Response]) {
	k.seen = sqe.Submission
	sqe.Callback(k.res, k.err)
}
func (k *vfKernel) DequeueSQE(int) []*bus.SQE[t_api.Request, t_api.Response] { panic("not implemented") }
func (k *vfKernel) EnqueueCQE(*bus.CQE[t_api.Request, t_api.Response])       { panic("not implemented") }
func (k *vfKernel) DequeueCQE(cq <-chan *bus.CQE[t_api.Request, t_api.Response]) *bus.CQE[t_api.Request, t_api.Response] {
	return <-cq
}

func vfServer(k *vfKernel) *server { return &server{api: api.New(k, "grpc")} }

func vfPanics(f func()) (p interface{}) {
	defer func() { p = recover() }()
	f()
	return nil
}

// F1 (C15): ReleaseLock compares with StatusCreated; the kernel answers a successful release with StatusNoContent.
func TestVerifReplayF1ReleasedFlag(t *testing.T) {
	k := &vfKernel{res: &t_api.Response{Kind: t_api.ReleaseLock, ReleaseLock: &t_api.ReleaseLockResponse{Status: t_api.StatusNoContent}}}
	res, err := vfServer(k).ReleaseLock(context.Background(), &pb.ReleaseLockRequest{ResourceId: "r", ExecutionId: "e"})
	if err != nil {
		t.Fatal(err)
	}
	if !res.Released {
		t.Fatalf("VERIF-REPRODUCED F1: the kernel released the lock (status %d) but the reply says released=false", t_api.StatusNoContent)
	}
}

// F2 (C13): ClaimTask validates ttl only after the kernel processed the request and never checks processId.
func TestVerifReplayF2ClaimValidatedAfterProcess(t *testing.T) {
	k := &vfKernel{res: &t_api.Response{Kind: t_api.ClaimTask, ClaimTask: &t_api.ClaimTaskResponse{Status: t_api.StatusTaskNotFound}}}
	_, _ = vfServer(k).ClaimTask(context.Background(), &pb.ClaimTaskRequest{Id: "t", Counter: 1, ProcessId: "", Ttl: -5})
	if k.seen != nil && (k.seen.ClaimTask.Ttl < 0 || k.seen.ClaimTask.ProcessId == "") {
		t.Fatalf("VERIF-REPRODUCED F2: the kernel was handed ClaimTask{ProcessId:%q, Ttl:%d}; the ClaimTask coroutine asserts processId != \"\" and ttl >= 0 and panics", k.seen.ClaimTask.ProcessId, k.seen.ClaimTask.Ttl)
	}
}

// F3 (C13, C15): code() has no case for statuses the kernel does produce.
func TestVerifReplayF3CodeTotality(t *testing.T) {
	for _, st := range []t_api.StatusCode{t_api.StatusPromiseRecvNotFound, t_api.StatusCallbackInvalidPromise} {
		st := st
		if p := vfPanics(func() { (&server{}).code(st) }); p != nil {
			t.Errorf("VERIF-REPRODUCED F3: code(%d) panics: %v", st, p)
		}
	}
	// end to end: create-with-task on an unrouted promise is answered with StatusPromiseRecvNotFound
	k := &vfKernel{err: t_api.NewError(t_api.StatusPromiseRecvNotFound, nil)}
	if p := vfPanics(func() {
		_, _ = vfServer(k).CreatePromise(context.Background(), &pb.CreatePromiseRequest{Id: "p"})
	}); p != nil {
		t.Errorf("VERIF-REPRODUCED F3: CreatePromise handler panics on a kernel error 40404: %v", p)
	}
}

// F4 (C13, C15): StatusCode.String has no case for StatusCallbackInvalidPromise, which CreateCallback returns.
func TestVerifReplayF4StatusString(t *testing.T) {
	k := &vfKernel{res: &t_api.Response{Kind: t_api.CreateCallback, CreateCallback: &t_api.CreateCallbackResponse{Status: t_api.StatusCallbackInvalidPromise}}}
	if p := vfPanics(func() {
		_, _ = vfServer(k).CreateCallback(context.Background(), &pb.CreateCallbackRequest{Id: "c", PromiseId: "p", RootPromiseId: "p", Recv: &pb.Recv{Recv: &pb.Recv_Logical{Logical: "x"}}})
	}); p != nil {
		t.Fatalf("VERIF-REPRODUCED F4: a callback whose promise id equals its root promise id panics the front end: %v", p)
	}
}

// F5 (C13): a gRPC CreateCallback without receiver dereferences nil.
func TestVerifReplayF5NilRecv(t *testing.T) {
	k := &vfKernel{res: &t_api.Response{Kind: t_api.CreateCallback, CreateCallback: &t_api.CreateCallbackResponse{Status: t_api.StatusOK}}}
	var err error
	if p := vfPanics(func() {
		_, err = vfServer(k).CreateCallback(context.Background(), &pb.CreateCallbackRequest{Id: "c", PromiseId: "p", RootPromiseId: "r"})
	}); p != nil {
		t.Fatalf("VERIF-REPRODUCED F5: CreateCallback without recv panics: %v", p)
	}
	if status.Code(err) != codes.InvalidArgument {
		t.Fatalf("expected InvalidArgument, got %v", err)
	}
}

// F12 (C13, C14): the cursor signing key is a public constant; a forged cursor with empty claims is accepted
// and its nil Next is handed to the kernel as the search request.
func TestVerifReplayF12ForgedCursor(t *testing.T) {
	forged, err := (&t_api.Cursor[t_api.SearchPromisesRequest]{}).Encode()
	if err != nil {
		t.Fatal(err)
	}
	k := &vfKernel{res: &t_api.Response{Kind: t_api.SearchPromises, SearchPromises: &t_api.SearchPromisesResponse{Status: t_api.StatusOK}}}
	_, herr := vfServer(k).SearchPromises(context.Background(), &pb.SearchPromisesRequest{Cursor: forged})
	if k.seen != nil && (k.seen.SearchPromises == nil || k.seen.SearchPromises.Id == "" || k.seen.SearchPromises.Limit <= 0) {
		t.Fatalf("VERIF-REPRODUCED F12: a forged cursor reached the kernel as SearchPromises=%v (the coroutine dereferences it / asserts id and limit): %v", fmt.Sprint(k.seen.SearchPromises), herr)
	}
}

// F19 (C15): CreateSchedule never sets the noop flag; the kernel answers an idempotent re-creation with StatusOK.
func TestVerifReplayF19ScheduleNoopFlag(t *testing.T) {
	k := &vfKernel{res: &t_api.Response{Kind: t_api.CreateSchedule, CreateSchedule: &t_api.CreateScheduleResponse{Status: t_api.StatusOK}}}
	res, err := vfServer(k).CreateSchedule(context.Background(), &pb.CreateScheduleRequest{Id: "s", Cron: "* * * * *", PromiseId: "p"})
	if err != nil {
		t.Fatal(err)
	}
	if !res.Noop {
		t.Fatalf("VERIF-REPRODUCED F19: the kernel answered the re-creation of an existing schedule with status %d (nothing was created) but the reply says noop=false", t_api.StatusOK)
	}
}
