package util

import "testing"

// F18: a cron expression that consists of a TZ=/CRON_TZ= prefix without a following spec made the cron library
// panic inside ParseCron; ParseCron is called with client input by the HTTP and gRPC CreateSchedule handlers
// (ValidateCron) and by the CreateSchedule / SchedulePromises coroutines (util.Next). A gRPC handler panic
// terminates the server process.
func TestVerifReplayF18CronTZ(t *testing.T) {
	for _, e := range []string{"TZ=UTC", "CRON_TZ=UTC", "TZ="} {
		func() {
			defer func() {
				if r := recover(); r != nil {
					t.Errorf("VERIF-REPRODUCED: ParseCron(%q) panicked: %v", e, r)
				}
			}()
			if _, err := ParseCron(e); err == nil {
				t.Errorf("ParseCron(%q) accepted an expression without a spec", e)
			}
		}()
	}
}
