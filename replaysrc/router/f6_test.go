package router

import (
	"testing"

	"github.com/resonatehq/resonate/internal/kernel/bus"
	"github.com/resonatehq/resonate/internal/kernel/t_aio"
	"github.com/resonatehq/resonate/pkg/promise"
)

// F6 (C13, C19): a routing tag whose value is the JSON literal null is valid JSON, decodes without error and leaves
// the receiver pointer nil; the router worker dereferences it.
func TestVerifReplayF6NullRoutingTag(t *testing.T) {
	for _, tag := range []string{"null", " null "} {
		w := &RouterWorker{sources: []func(*promise.Promise) (any, bool){TagSource(&TagSourceConfig{Key: "resonate:invoke"})}}
		sqe := &bus.SQE[t_aio.Submission, t_aio.Completion]{Id: "x", Submission: &t_aio.Submission{Kind: t_aio.Router,
			Router: &t_aio.RouterSubmission{Promise: &promise.Promise{Id: "p", Tags: map[string]string{"resonate:invoke": tag}}}}}
		func() {
			defer func() {
				if p := recover(); p != nil {
					t.Errorf("VERIF-REPRODUCED F6: a promise tagged resonate:invoke=%q panics the router worker: %v", tag, p)
				}
			}()
			cqe := w.Process(sqe)
			if cqe.Completion == nil || cqe.Completion.Router == nil {
				t.Errorf("no router completion for tag %q", tag)
			}
		}()
	}
}
