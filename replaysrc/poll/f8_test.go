package poll

import (
	"testing"

	"github.com/resonatehq/resonate/internal/aio"
	"github.com/resonatehq/resonate/pkg/message"
)

// F8 (C13, C18): a physical poll receiver whose data is the JSON literal null ({"type":"poll","data":null})
// unmarshals without error and leaves the pointer nil; the poll worker dereferences it.
func TestVerifReplayF8PollNullData(t *testing.T) {
	w := &PollWorker{connections: connections{max: 1, conns: map[string][]*connection{}}}
	calls := 0
	defer func() {
		if p := recover(); p != nil {
			t.Fatalf("VERIF-REPRODUCED F8: a poll message with data=null panics the poll worker: %v", p)
		}
	}()
	w.Process(&aio.Message{Type: message.Invoke, Data: []byte("null"), Body: []byte("{}"), Done: func(ok bool, err error) {
		calls++
		if ok {
			t.Errorf("reported delivered")
		}
	}})
	if calls != 1 {
		t.Fatalf("Done called %d times", calls)
	}
}
