package sender

import (
	"testing"

	"github.com/resonatehq/resonate/internal/aio"
	"github.com/resonatehq/resonate/internal/kernel/bus"
	"github.com/resonatehq/resonate/internal/kernel/t_aio"
	"github.com/resonatehq/resonate/internal/metrics"
	"github.com/resonatehq/resonate/pkg/message"
	"github.com/resonatehq/resonate/pkg/receiver"
	"github.com/resonatehq/resonate/pkg/task"
	"github.com/prometheus/client_golang/prometheus"
)

type vfAIO struct {
	aio.AIO
	cqes []*bus.CQE[t_aio.Submission, t_aio.Completion]
}

func (a *vfAIO) EnqueueCQE(cqe *bus.CQE[t_aio.Submission, t_aio.Completion]) { a.cqes = append(a.cqes, cqe) }

// F7 (C13, C19): a task whose stored receiver is the JSON literal null (HTTP create callback / subscription with
// "recv": null passes the required binding) unmarshals into neither a logical nor a physical receiver without
// error; the sender worker's assertion panics.
func TestVerifReplayF7NullRecv(t *testing.T) {
	a := &vfAIO{}
	w := &SenderWorker{plugins: map[string]aio.Plugin{}, targets: map[string]*receiver.Recv{}, aio: a, metrics: metrics.New(prometheus.NewRegistry())}
	sqe := &bus.SQE[t_aio.Submission, t_aio.Completion]{Id: "x", Submission: &t_aio.Submission{Kind: t_aio.Sender,
		Sender: &t_aio.SenderSubmission{Task: &task.Task{Id: "t", Recv: []byte("null"), Mesg: &message.Mesg{Type: message.Resume, Root: "r", Leaf: "l"}}}}}
	defer func() {
		if p := recover(); p != nil {
			t.Fatalf("VERIF-REPRODUCED F7: a task with recv=null panics the sender worker: %v", p)
		}
	}()
	w.Process(sqe)
	if len(a.cqes) != 1 || a.cqes[0].Error == nil {
		t.Fatalf("expected exactly one failed completion, got %d", len(a.cqes))
	}
}
