package http

import (
	"net/http"
	"testing"
)

// F8 (C13, C19): a physical http receiver whose data is the JSON literal null ({"type":"http","data":null}).
func TestVerifReplayF8HttpNullData(t *testing.T) {
	w := &HttpWorker{client: &http.Client{}}
	defer func() {
		if p := recover(); p != nil {
			t.Fatalf("VERIF-REPRODUCED F8: an http message with data=null panics the http plugin worker: %v", p)
		}
	}()
	ok, err := w.Process([]byte("null"), []byte("{}"))
	if ok || err == nil {
		t.Fatalf("expected a failed hand-off, got ok=%v err=%v", ok, err)
	}
}
