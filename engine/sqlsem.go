package main

// Semantics of the parsed SQL over the abstract database: every statement
// becomes a pointwise transformer (a new table version whose row at key k is
// a term over the old row at k and the statement parameters), with SQL
// three-valued logic for NULL.

import (
	"fmt"
	"go/token"
	"hash/fnv"
	"strings"
)

// tv3 is a three-valued boolean: T = definitely true, F = definitely false.
type tv3 struct{ T, F Term }

type sqlEnv struct {
	g       *GhostDB
	st      *State
	table   *Table // table of the current row
	alias   string
	row     Term
	outer   *sqlEnv
	params  []Value
	exclude map[string]Term // EXCLUDED.col values
	snap    map[string]*TableVer
	stmt    *SQLStmt
	err     *string
	dialect string
}

func (e *sqlEnv) fail(format string, args ...interface{}) {
	msg := fmt.Sprintf(format, args...)
	if *e.err == "" {
		*e.err = msg
	}
}

// paramTerm converts Go argument n to an option term of the wanted sort.
func (e *sqlEnv) paramTerm(n int, want Sort) Term {
	x := e.g.x
	if n >= len(e.params) {
		e.fail("statement uses parameter %d but only %d arguments are bound", n+1, len(e.params))
		return optNone(wantOr(want, SOptI))
	}
	t, ok := x.goToSQL(e.st, e.params[n], want)
	if !ok {
		e.fail("argument %d has a Go type that does not fit the SQL position (want %s)", n+1, want)
		return optNone(wantOr(want, SOptI))
	}
	return t
}

func wantOr(a, b Sort) Sort {
	if a == "" {
		return b
	}
	return a
}

// goToSQL lowers a Go value bound to a placeholder to an option term.
func (x *Exec) goToSQL(st *State, v Value, want Sort) (Term, bool) {
	v = x.force(st, v)
	switch vv := v.(type) {
	case VIface:
		if vv.Nil.IsTrue() {
			if want == "" {
				return Term{}, false
			}
			return optNone(want), true
		}
		if vv.Dyn != nil {
			return x.goToSQL(st, vv.Val, want)
		}
		return Term{}, false
	case VScalar:
		s := optOf(vv.T.Sort)
		if vv.T.Sort == SBool {
			return Term{}, false
		}
		if want == SOptB && vv.T.Sort == SStr {
			// a Go string bound to a blob / json position: its bytes
			return optSome(SOptB, App(SBytes, "bytes.ofstr", vv.T)), true
		}
		if want != "" && s != want {
			return Term{}, false
		}
		return optSome(s, vv.T), true
	case VBytes:
		if want != "" && want != SOptB {
			return Term{}, false
		}
		return Ite(vv.Nil, optNone(SOptB), optSome(SOptB, vv.B)), true
	case VPtr:
		if vv.Loc == nil || vv.Nil.IsTrue() {
			if want == "" {
				return Term{}, false
			}
			return optNone(want), true
		}
		inner := x.force(st, x.load(st, vv.Loc))
		sv, ok := inner.(VScalar)
		if !ok {
			return Term{}, false
		}
		s := optOf(sv.T.Sort)
		if want == SOptB && sv.T.Sort == SStr {
			return Ite(vv.Nil, optNone(SOptB), optSome(SOptB, App(SBytes, "bytes.ofstr", sv.T))), true
		}
		if want != "" && s != want {
			return Term{}, false
		}
		return Ite(vv.Nil, optNone(s), optSome(s, sv.T)), true
	}
	return Term{}, false
}

func (e *sqlEnv) lookupCol(c SQLCol) (Term, bool) {
	for env := e; env != nil; env = env.outer {
		if env.table == nil {
			continue
		}
		if c.Table != "" && c.Table != env.alias && c.Table != env.table.Name {
			continue
		}
		if col := env.table.col(c.Name); col != nil {
			return colSel(env.table.Name, col.Name, env.row, col.Sort), true
		}
		if c.Table != "" {
			break
		}
	}
	return Term{}, false
}

// value evaluates a scalar SQL expression to an option term.
func (e *sqlEnv) value(ex SQLExpr, want Sort) Term {
	switch n := ex.(type) {
	case SQLCol:
		t, ok := e.lookupCol(n)
		if !ok {
			e.fail("unknown column %s.%s", n.Table, n.Name)
			return optNone(wantOr(want, SOptI))
		}
		return t
	case SQLParam:
		return e.paramTerm(n.N, want)
	case SQLInt:
		return optSome(SOptI, IntLit(n.V))
	case SQLStr:
		return optSome(SOptS, e.g.x.sym.StrLit(n.V))
	case SQLNull:
		return optNone(wantOr(want, SOptI))
	case SQLExcluded:
		if t, ok := e.exclude[n.Name]; ok {
			return t
		}
		e.fail("EXCLUDED.%s is not an inserted column", n.Name)
		return optNone(wantOr(want, SOptI))
	case SQLCast:
		w := want
		switch strings.ToLower(n.Type) {
		case "int", "integer", "bigint":
			w = SOptI
		case "jsonb", "bytea", "json":
			w = SOptB
		case "text":
			w = SOptS
		}
		return e.value(n.E, w)
	case SQLBin:
		switch n.Op {
		case "+", "-", "&", "|":
			l := e.value(n.L, SOptI)
			r := e.value(n.R, SOptI)
			if l.Sort != SOptI || r.Sort != SOptI {
				e.fail("arithmetic on non integer operands")
				return optNone(SOptI)
			}
			null := Or(optIsNull(l), optIsNull(r))
			var v Term
			switch n.Op {
			case "+":
				v = App(SInt, "sqladd", optVal(l), optVal(r))
			case "-":
				v = App(SInt, "sqlsub", optVal(l), optVal(r))
			case "&":
				v = bitop("band", optVal(l), optVal(r))
			case "|":
				v = bitop("bor", optVal(l), optVal(r))
			}
			return Ite(null, optNone(SOptI), optSome(SOptI, v))
		}
	case SQLFunc:
		// json_extract(tags, path): uninterpreted, null when the document is null
		var args []Term
		name := "sql." + n.Name
		for _, a := range n.Args {
			t := e.value(a, "")
			args = append(args, t)
			name += "." + string(t.Sort)
		}
		sorts := make([]Sort, len(args))
		for i, a := range args {
			sorts[i] = a.Sort
		}
		f := e.g.x.sym.Func(name, sorts, SOptS)
		return App(SOptS, f, args...)
	}
	e.fail("unsupported SQL value expression %T", ex)
	return optNone(wantOr(want, SOptI))
}

// sortHint guesses the sort of an expression without evaluating parameters.
func (e *sqlEnv) sortHint(ex SQLExpr) Sort {
	switch n := ex.(type) {
	case SQLCol:
		if t, ok := e.lookupCol(n); ok {
			return t.Sort
		}
	case SQLInt:
		return SOptI
	case SQLStr:
		return SOptS
	case SQLBin:
		switch n.Op {
		case "+", "-", "&", "|":
			return SOptI
		}
	case SQLCast:
		switch strings.ToLower(n.Type) {
		case "int", "integer", "bigint":
			return SOptI
		case "jsonb", "bytea", "json":
			return SOptB
		case "text":
			return SOptS
		}
		return e.sortHint(n.E)
	case SQLExcluded:
		if t, ok := e.exclude[n.Name]; ok {
			return t.Sort
		}
	case SQLFunc:
		return SOptS
	}
	return ""
}

func (e *sqlEnv) pair(l, r SQLExpr) (Term, Term) {
	hl, hr := e.sortHint(l), e.sortHint(r)
	want := hl
	if want == "" {
		want = hr
	}
	return e.value(l, want), e.value(r, want)
}

// cond evaluates a boolean SQL expression in three-valued logic.
func (e *sqlEnv) cond(ex SQLExpr) tv3 {
	switch n := ex.(type) {
	case SQLBin:
		if strings.HasPrefix(n.Op, "like escape ") {
			// a LIKE with an ESCAPE clause: its own uninterpreted predicate (not the predicate of plain LIKE)
			l := e.value(n.L, SOptS)
			r := e.value(n.R, SOptS)
			nn := And(Not(optIsNull(l)), Not(optIsNull(r)))
			f := e.g.x.sym.Func("sql.like.escape."+sanitizeOp(strings.TrimPrefix(n.Op, "like escape ")), []Sort{SStr, SStr}, SBool)
			c := App(SBool, f, optVal(l), optVal(r))
			return tv3{And(nn, c), And(nn, Not(c))}
		}
		switch n.Op {
		case "and":
			a, b := e.cond(n.L), e.cond(n.R)
			return tv3{And(a.T, b.T), Or(a.F, b.F)}
		case "or":
			a, b := e.cond(n.L), e.cond(n.R)
			return tv3{Or(a.T, b.T), And(a.F, b.F)}
		case "=", "!=", "<", "<=", ">", ">=":
			l, r := e.pair(n.L, n.R)
			if l.Sort != r.Sort {
				e.fail("comparison of %s with %s", l.Sort, r.Sort)
				return tv3{TFalse, TFalse}
			}
			nn := And(Not(optIsNull(l)), Not(optIsNull(r)))
			var c Term
			switch n.Op {
			case "=":
				c = Eq(optVal(l), optVal(r))
			case "!=":
				c = Not(Eq(optVal(l), optVal(r)))
			default:
				if l.Sort != SOptI {
					c = App(SBool, "sql.cmp"+sanitizeOp(n.Op)+"."+string(l.Sort), optVal(l), optVal(r))
					e.g.x.sym.Func("sql.cmp"+sanitizeOp(n.Op)+"."+string(l.Sort), []Sort{baseSort(l.Sort), baseSort(l.Sort)}, SBool)
				} else {
					c = cmp(n.Op, optVal(l), optVal(r))
				}
			}
			return tv3{And(nn, c), And(nn, Not(c))}
		case "like":
			l := e.value(n.L, SOptS)
			r := e.value(n.R, SOptS)
			nn := And(Not(optIsNull(l)), Not(optIsNull(r)))
			f := e.g.x.sym.Func("sql.like", []Sort{SStr, SStr}, SBool)
			c := App(SBool, f, optVal(l), optVal(r))
			return tv3{And(nn, c), And(nn, Not(c))}
		case "@>":
			l := e.value(n.L, SOptB)
			r := e.value(n.R, SOptB)
			nn := And(Not(optIsNull(l)), Not(optIsNull(r)))
			f := e.g.x.sym.Func("sql.jsoncontains", []Sort{SBytes, SBytes}, SBool)
			c := App(SBool, f, optVal(l), optVal(r))
			return tv3{And(nn, c), And(nn, Not(c))}
		}
	case SQLNot:
		a := e.cond(n.E)
		return tv3{a.F, a.T}
	case SQLIsNull:
		v := e.value(n.E, e.sortHint(n.E))
		isn := optIsNull(v)
		if n.Neg {
			return tv3{Not(isn), isn}
		}
		return tv3{isn, Not(isn)}
	case SQLIn:
		var ts, fs []Term
		for _, it := range n.List {
			c := e.cond(SQLBin{"=", n.E, it})
			ts = append(ts, c.T)
			fs = append(fs, c.F)
		}
		r := tv3{Or(ts...), And(fs...)}
		if n.Neg {
			return tv3{r.F, r.T}
		}
		return r
	case SQLExists:
		t := e.exists(n.Sel)
		if n.Neg {
			return tv3{Not(t), t}
		}
		return tv3{t, Not(t)}
	}
	e.fail("unsupported SQL condition %T", ex)
	return tv3{TFalse, TFalse}
}

func sanitizeOp(op string) string {
	switch op {
	case "<":
		return "lt"
	case "<=":
		return "le"
	case ">":
		return "gt"
	case ">=":
		return "ge"
	}
	return "op"
}

// conjuncts splits a condition at top-level ANDs.
func conjuncts(ex SQLExpr) []SQLExpr {
	if b, ok := ex.(SQLBin); ok && b.Op == "and" {
		return append(conjuncts(b.L), conjuncts(b.R)...)
	}
	if ex == nil {
		return nil
	}
	return []SQLExpr{ex}
}

// keyEquality finds a conjunct "keycol = expr" (expr not mentioning the row) in the WHERE clause.
func keyEquality(t *Table, alias string, where SQLExpr) (SQLExpr, bool) {
	for _, c := range conjuncts(where) {
		b, ok := c.(SQLBin)
		if !ok || b.Op != "=" {
			continue
		}
		if col, ok := b.L.(SQLCol); ok && col.Name == t.Key && (col.Table == "" || col.Table == alias || col.Table == t.Name) {
			if !mentionsTable(b.R, t, alias) {
				return b.R, true
			}
		}
		if col, ok := b.R.(SQLCol); ok && col.Name == t.Key && (col.Table == "" || col.Table == alias || col.Table == t.Name) {
			if !mentionsTable(b.L, t, alias) {
				return b.L, true
			}
		}
	}
	return nil, false
}

func mentionsTable(ex SQLExpr, t *Table, alias string) bool {
	switch n := ex.(type) {
	case SQLCol:
		if n.Table != "" {
			return n.Table == alias || n.Table == t.Name
		}
		return t.col(n.Name) != nil
	case SQLBin:
		return mentionsTable(n.L, t, alias) || mentionsTable(n.R, t, alias)
	case SQLCast:
		return mentionsTable(n.E, t, alias)
	}
	return false
}

// exists evaluates EXISTS(SELECT ... FROM t WHERE ...). When the subquery
// pins the key of t the answer is exact; otherwise it is an uninterpreted
// predicate of the statement, the table version and the parameters.
func (e *sqlEnv) exists(sel *SQLSelect) Term {
	t := e.g.schema.Tables[sel.From]
	if t == nil {
		e.fail("EXISTS over unknown table %s", sel.From)
		return TFalse
	}
	tv := e.snap[t.Name]
	if keyEx, ok := keyEquality(t, sel.Alias, sel.Where); ok && t.Key != "" {
		kt := e.value(keyEx, t.col(t.Key).Sort)
		k := optVal(kt)
		row := e.g.rowAt(e.st, tv, k)
		e.g.noteKey(k)
		inner := &sqlEnv{g: e.g, st: e.st, table: t, alias: sel.Alias, row: row, outer: e, params: e.params, snap: e.snap, stmt: e.stmt, err: e.err}
		c := inner.cond(sel.Where)
		return And(Not(optIsNull(kt)), rowPresent(t.Name, row), c.T)
	}
	// correlated / set-valued subquery: uninterpreted, but a function of the
	// version, the subquery text and the outer row's correlated columns
	h := fnv.New32a()
	h.Write([]byte(fmt.Sprintf("%#v", sel.Where)))
	var args []Term
	args = append(args, tv.Ver)
	sorts := []Sort{"Ver"}
	for _, c := range conjuncts(sel.Where) {
		if b, ok := c.(SQLBin); ok {
			for _, side := range []SQLExpr{b.L, b.R} {
				if col, ok := side.(SQLCol); ok && col.Table != "" && col.Table != sel.Alias {
					if v, ok := e.lookupCol(col); ok {
						args = append(args, v)
						sorts = append(sorts, v.Sort)
					}
				}
			}
		}
	}
	name := fmt.Sprintf("sql.exists.%s.%x", t.Name, h.Sum32())
	f := e.g.x.sym.Func(name, sorts, SBool)
	e.g.x.notes["EXISTS subquery without key equality is an uninterpreted predicate: "+name] = true
	return App(SBool, f, args...)
}

// --------------------------------------------------------------------------
// statements

type sqlOutcome struct {
	Rows Term // rows affected
	Err  string
}

func (g *GhostDB) mkRow(t *Table, present Term, vals map[string]Term) Term {
	args := []Term{present}
	for _, c := range t.Cols {
		v, ok := vals[c.Name]
		if !ok {
			v = optNone(c.Sort)
		}
		args = append(args, v)
	}
	return App(rowSort(t.Name), "mk."+t.Name, args...)
}

func (g *GhostDB) updRow(t *Table, old Term, sets map[string]Term) Term {
	vals := map[string]Term{}
	for _, c := range t.Cols {
		if v, ok := sets[c.Name]; ok {
			vals[c.Name] = v
		} else {
			vals[c.Name] = colSel(t.Name, c.Name, old, c.Sort)
		}
	}
	return g.mkRow(t, rowPresent(t.Name, old), vals)
}

// countTerm names the number of rows of version tv that satisfy a predicate
// identified by name and arguments.
func (g *GhostDB) countTerm(tv *TableVer, pred string, args []Term) Term {
	sorts := []Sort{"Ver"}
	all := []Term{tv.Ver}
	for _, a := range args {
		sorts = append(sorts, a.Sort)
		all = append(all, a)
	}
	f := g.x.sym.Func("count."+tv.Table.Name+"."+pred, sorts, SInt)
	return App(SInt, f, all...)
}

// execSQL applies a data-modifying statement.
func (g *GhostDB) execSQL(st *State, stmt *SQLStmt, params []Value, dialect string) sqlOutcome {
	errMsg := ""
	t := g.schema.Tables[stmt.Table]
	if t == nil {
		return sqlOutcome{Err: "unknown table " + stmt.Table}
	}
	snap := g.snapshot()
	pre := snap[t.Name]
	base := &sqlEnv{g: g, st: st, params: params, snap: snap, stmt: stmt, err: &errMsg, dialect: dialect}
	if stmt.NParams != len(params) {
		return sqlOutcome{Err: fmt.Sprintf("statement has %d placeholders but %d arguments are bound", stmt.NParams, len(params))}
	}
	var rows Term
	switch stmt.Kind {
	case "update", "delete":
		hitAt := func(st *State, k, old Term) Term {
			env := &sqlEnv{g: g, st: st, table: t, row: old, params: params, snap: snap, stmt: stmt, err: &errMsg}
			c := TTrue
			if stmt.Where != nil {
				c = env.cond(stmt.Where).T
			}
			return And(rowPresent(t.Name, old), c)
		}
		newAt := func(st *State, k, old Term) Term {
			if stmt.Kind == "delete" {
				return Term{"absent." + t.Name, rowSort(t.Name)}
			}
			env := &sqlEnv{g: g, st: st, table: t, row: old, params: params, snap: snap, stmt: stmt, err: &errMsg}
			sets := map[string]Term{}
			for _, s := range stmt.Sets {
				col := t.col(s.Col)
				if col == nil {
					env.fail("unknown column %s in SET", s.Col)
					continue
				}
				sets[s.Col] = env.value(s.E, col.Sort)
				if sets[s.Col].Sort != col.Sort {
					env.fail("SET %s: value of sort %s into column of sort %s", s.Col, sets[s.Col].Sort, col.Sort)
				}
			}
			return g.updRow(t, old, sets)
		}
		g.pushLayer(t.Name, stmt.Kind, func(st *State, k, old Term) Term {
			return Ite(hitAt(st, k, old), newAt(st, k, old), old)
		})
		if keyEx, ok := keyEquality(t, "", stmt.Where); ok && t.Key != "" {
			kt := base.value(keyEx, t.col(t.Key).Sort)
			k := optVal(kt)
			g.noteKey(k)
			old := g.rowAt(st, pre, k)
			rows = Ite(And(Not(optIsNull(kt)), hitAt(st, k, old)), IntLit(1), IntLit(0))
		} else {
			// set statement: the count is a function of the predicate, the version and the parameters
			var args []Term
			for i := range params {
				if pt, ok := g.x.goToSQL(st, params[i], ""); ok {
					args = append(args, pt)
				}
			}
			rows = g.countTerm(pre, "sql."+sqlHash(stmt.Where), args)
			st.assume(Ge(rows, IntLit(0)))
			g.lastSetHit = &setHit{table: t, pre: pre, hit: hitAt, rows: rows}
		}
	case "insert":
		rows = g.execInsert(st, stmt, t, base, snap, &errMsg)
	default:
		return sqlOutcome{Err: "unsupported statement kind " + stmt.Kind}
	}
	// evaluate the new version at the keys known so far, so that type errors surface now
	for _, k := range g.keys {
		g.rowAt(st, g.cur[t.Name], k)
	}
	if probe := g.x.sym.Named("sqlprobe.key", SStr); true {
		g.rowAt(st, g.cur[t.Name], probe)
	}
	if errMsg != "" {
		return sqlOutcome{Err: errMsg}
	}
	return sqlOutcome{Rows: rows}
}

type setHit struct {
	table *Table
	pre   *TableVer
	hit   func(st *State, k, old Term) Term
	rows  Term
}

func sqlHash(ex SQLExpr) string {
	h := fnv.New32a()
	h.Write([]byte(fmt.Sprintf("%#v", ex)))
	return fmt.Sprintf("%x", h.Sum32())
}

func (g *GhostDB) execInsert(st *State, stmt *SQLStmt, t *Table, base *sqlEnv, snap map[string]*TableVer, errMsg *string) Term {
	pre := snap[t.Name]
	defaults := func(vals map[string]Term, st *State, k Term) {
		for _, c := range t.Cols {
			if _, ok := vals[c.Name]; ok {
				continue
			}
			if c.Default != nil {
				vals[c.Name] = optSome(c.Sort, IntLit(*c.Default))
			} else if c.AutoInc {
				// a fresh sort id larger than every existing one (uninterpreted per version and key)
				f := g.x.sym.Func("autoinc."+t.Name, []Sort{"Ver", SStr}, SInt)
				vals[c.Name] = optSome(c.Sort, App(SInt, f, pre.Ver, k))
			}
		}
	}
	if stmt.Select == nil {
		if len(stmt.Cols) != len(stmt.Values) {
			base.fail("insert: %d columns but %d values", len(stmt.Cols), len(stmt.Values))
			return IntLit(0)
		}
		vals := map[string]Term{}
		for i, cn := range stmt.Cols {
			col := t.col(cn)
			if col == nil {
				base.fail("insert: unknown column %s", cn)
				return IntLit(0)
			}
			vals[cn] = base.value(stmt.Values[i], col.Sort)
			if vals[cn].Sort != col.Sort {
				base.fail("insert: value of sort %s into column %s of sort %s", vals[cn].Sort, cn, col.Sort)
			}
		}
		kv, ok := vals[t.Key]
		if !ok {
			base.fail("insert does not set the key column %s", t.Key)
			return IntLit(0)
		}
		key := optVal(kv)
		g.noteKey(key)
		if !optIsNull(kv).IsFalse() {
			base.fail("insert: key may be NULL")
		}
		old := g.rowAt(st, pre, key)
		exists := rowPresent(t.Name, old)
		if !stmt.HasConflict {
			// a conflict makes the statement fail, and with it every submission of the batch: "create only
			// if absent" is a 0-row answer, not an error. Without a conflict clause the statement is only
			// acceptable where the row provably does not exist.
			g.x.oblige(st, "sql", fmt.Sprintf("INSERT INTO %s has no ON CONFLICT clause: a row that already exists makes the statement (and the whole batch) fail instead of reporting 0 rows", t.Name), Not(exists), token.NoPos, g.x.sqlProps)
			st.assume(Not(exists))
		} else if stmt.ConflictCol != t.Key {
			base.fail("ON CONFLICT(%s) is not the key column %s", stmt.ConflictCol, t.Key)
		}
		var updCond Term = TFalse
		var updRowF func(st *State, old Term) Term
		if stmt.ConflictSets != nil {
			mk := func(st *State, old Term) (Term, Term) {
				env := &sqlEnv{g: g, st: st, table: t, row: old, params: base.params, snap: snap, stmt: stmt, err: errMsg, exclude: vals}
				c := TTrue
				if stmt.ConflictCond != nil {
					c = env.cond(stmt.ConflictCond).T
				}
				sets := map[string]Term{}
				for _, s := range stmt.ConflictSets {
					col := t.col(s.Col)
					if col == nil {
						env.fail("unknown column %s", s.Col)
						continue
					}
					sets[s.Col] = env.value(s.E, col.Sort)
				}
				return c, g.updRow(t, old, sets)
			}
			updCond, _ = mk(st, old)
			updRowF = func(st *State, old Term) Term { _, r := mk(st, old); return r }
		}
		g.pushLayer(t.Name, "insert", func(st *State, k, oldk Term) Term {
			v2 := map[string]Term{}
			for kk, vv := range vals {
				v2[kk] = vv
			}
			defaults(v2, st, k)
			ins := g.mkRow(t, TTrue, v2)
			atKey := Eq(k, key)
			var onConflict Term = oldk
			if updRowF != nil {
				env := &sqlEnv{g: g, st: st, table: t, row: oldk, params: base.params, snap: snap, stmt: stmt, err: errMsg, exclude: vals}
				c := TTrue
				if stmt.ConflictCond != nil {
					c = env.cond(stmt.ConflictCond).T
				}
				onConflict = Ite(c, updRowF(st, oldk), oldk)
			}
			return Ite(atKey, Ite(rowPresent(t.Name, oldk), onConflict, ins), oldk)
		})
		return Ite(Not(exists), IntLit(1), Ite(updCond, IntLit(1), IntLit(0)))
	}
	// INSERT ... SELECT
	sel := stmt.Select
	if len(stmt.Cols) != len(sel.Proj) {
		base.fail("insert-select: %d columns but %d projections", len(stmt.Cols), len(sel.Proj))
		return IntLit(0)
	}
	if sel.From == "" {
		// single conditional row: INSERT ... SELECT ?, ... WHERE cond
		vals := map[string]Term{}
		for i, cn := range stmt.Cols {
			col := t.col(cn)
			if col == nil {
				base.fail("insert: unknown column %s", cn)
				return IntLit(0)
			}
			vals[cn] = base.value(sel.Proj[i], col.Sort)
		}
		kv, ok := vals[t.Key]
		if !ok {
			base.fail("insert does not set the key column %s", t.Key)
			return IntLit(0)
		}
		key := optVal(kv)
		g.noteKey(key)
		cond := TTrue
		if sel.Where != nil {
			cond = base.cond(sel.Where).T
		}
		old := g.rowAt(st, pre, key)
		// a unique conflict would fail the statement: on the success path the row is absent whenever cond holds
		if !stmt.HasConflict {
			st.assume(Implies(cond, Not(rowPresent(t.Name, old))))
		}
		g.pushLayer(t.Name, "insert-select1", func(st *State, k, oldk Term) Term {
			v2 := map[string]Term{}
			for kk, vv := range vals {
				v2[kk] = vv
			}
			defaults(v2, st, k)
			return Ite(And(Eq(k, key), cond, Not(rowPresent(t.Name, oldk))), g.mkRow(t, TTrue, v2), oldk)
		})
		return Ite(And(cond, Not(rowPresent(t.Name, old))), IntLit(1), IntLit(0))
	}
	// set insert from another table: pointwise when the target key is the source key
	src := g.schema.Tables[sel.From]
	if src == nil {
		base.fail("insert-select from unknown table %s", sel.From)
		return IntLit(0)
	}
	keyIdx := -1
	for i, cn := range stmt.Cols {
		if cn == t.Key {
			keyIdx = i
		}
	}
	if keyIdx < 0 {
		base.fail("insert-select does not set the key column")
		return IntLit(0)
	}
	if c, ok := sel.Proj[keyIdx].(SQLCol); !ok || c.Name != src.Key {
		base.fail("insert-select: target key is not the source key column (not pointwise)")
		return IntLit(0)
	}
	srcVer := snap[src.Name]
	hitAt := func(st *State, k Term) (Term, *sqlEnv) {
		srow := g.rowAt(st, srcVer, k)
		env := &sqlEnv{g: g, st: st, table: src, alias: sel.Alias, row: srow, params: base.params, snap: snap, stmt: stmt, err: errMsg}
		c := TTrue
		if sel.Where != nil {
			c = env.cond(sel.Where).T
		}
		return And(rowPresent(src.Name, srow), c), env
	}
	g.pushLayer(t.Name, "insert-select", func(st *State, k, oldk Term) Term {
		hit, env := hitAt(st, k)
		vals := map[string]Term{}
		for i, cn := range stmt.Cols {
			col := t.col(cn)
			if col == nil {
				env.fail("insert: unknown column %s", cn)
				continue
			}
			vals[cn] = env.value(sel.Proj[i], col.Sort)
			if vals[cn].Sort != col.Sort {
				env.fail("insert-select: sort mismatch for column %s", cn)
			}
		}
		defaults(vals, st, k)
		if !stmt.HasConflict {
			// unique conflict => statement error; success path: no conflict at any key looked at
			st.assume(Implies(hit, Not(rowPresent(t.Name, oldk))))
		}
		return Ite(And(hit, Not(rowPresent(t.Name, oldk))), g.mkRow(t, TTrue, vals), oldk)
	})
	var args []Term
	for i := range base.params {
		if pt, ok := g.x.goToSQL(st, base.params[i], ""); ok {
			args = append(args, pt)
		}
	}
	_ = args
	// count depends on the parameters mentioned by the WHERE clause only
	rows := g.countTerm(srcVer, "sql."+sqlHash(sel.Where), whereParams(g, st, sel.Where, base.params))
	st.assume(Ge(rows, IntLit(0)))
	g.lastSetHit = &setHit{table: src, pre: srcVer, hit: func(st *State, k, old Term) Term { h, _ := hitAt(st, k); return h }, rows: rows}
	if stmt.HasConflict {
		// ON CONFLICT ... DO NOTHING / DO UPDATE: a selected row whose key is taken is skipped, not an error;
		// the number of rows inserted is anything between 0 and the number selected
		ins := g.x.sym.Fresh("sql.inserted", SInt)
		st.assume(And(Ge(ins, IntLit(0)), Le(ins, rows)))
		return ins
	}
	return rows
}

// whereParams lists the parameter terms a condition mentions, in order.
func whereParams(g *GhostDB, st *State, ex SQLExpr, params []Value) []Term {
	var out []Term
	var walk func(e SQLExpr)
	walk = func(e SQLExpr) {
		switch n := e.(type) {
		case SQLParam:
			if n.N < len(params) {
				if t, ok := g.x.goToSQL(st, params[n.N], ""); ok {
					out = append(out, t)
				}
			}
		case SQLBin:
			walk(n.L)
			walk(n.R)
		case SQLNot:
			walk(n.E)
		case SQLIsNull:
			walk(n.E)
		case SQLCast:
			walk(n.E)
		case SQLIn:
			walk(n.E)
			for _, i := range n.List {
				walk(i)
			}
		}
	}
	walk(ex)
	return out
}

var _ = strings.TrimSpace
