package main

// Binding between the Go command structs of t_aio and the spec functions of
// /verif/spec/20_commands.smt2. The same table is used in both directions:
// Layer S proves that each backend handler (real SQL text, real argument
// binding) refines spec.<Cmd>.*, and Layer C applies spec.<Cmd>.* when a
// coroutine submits the command. A wrong entry here therefore shows up as a
// Layer S failure, not as a silent pass.

import (
	"fmt"
	"go/types"
	"strings"
	"unicode"
)

type crossRef struct {
	Table string
	Key   string // spec expression over cmd giving the key, or "$k"
}

type tableEffect struct {
	Table string
	Fn    string
	Auto  bool
	Args  []string
	Cross []crossRef
}

type rowsSpec struct {
	ResField string // field of the kind's result struct
	Fn       string // rows.<...> function over pre rows, or ""
	Pre      []crossRef
	Args     []string
	// for set statements: count of a named predicate over a table
	CountTable string
	CountPred  string
	CountArgs  []string
}

type readSpec struct {
	Table   string
	Key     string   // keyed read: spec expression for the key
	Cols    []string // columns delivered in the records
	RecType string   // Go record type name
	Pred    string   // set read: predicate function name (pred.<Kind>) over row and args
	Args    []string
	Limit   string
}

type CmdSpec struct {
	Kind    string // StoreKind constant name; also Command/Result field unless overridden
	CmdFld  string
	ResFld  string
	Effects []tableEffect
	Rows    []rowsSpec
	Read    *readSpec
	Sub     []string // sub commands (CreatePromiseAndTask)
}

var promiseArgs = []string{"cmd.Id", "json(cmd.Param.Headers)", "cmd.Param.Data", "cmd.Timeout", "opt(cmd.IdempotencyKey)", "json(cmd.Tags)", "cmd.CreatedOn"}
var taskArgs = []string{"cmd.Id", "cmd.Recv", "mesg(cmd.Mesg)", "cmd.Timeout", "opt(cmd.ProcessId)", "cmd.State", "cmd.Mesg.Root", "cmd.Ttl", "cmd.ExpiresAt", "cmd.CreatedOn"}

func sub(prefix string, args []string) []string {
	out := make([]string, len(args))
	for i, a := range args {
		out[i] = strings.ReplaceAll(a, "cmd.", "cmd."+prefix+".")
	}
	return out
}

var promiseReadCols = []string{"id", "state", "param_headers", "param_data", "value_headers", "value_data", "timeout", "idempotency_key_for_create", "idempotency_key_for_complete", "tags", "created_on", "completed_on"}
var taskReadCols = []string{"id", "process_id", "state", "root_promise_id", "recv", "mesg", "timeout", "counter", "attempt", "ttl", "expires_at", "created_on", "completed_on"}

var cmdSpecs = []*CmdSpec{
	{Kind: "ReadPromise", Read: &readSpec{Table: "promises", Key: "cmd.Id", Cols: promiseReadCols, RecType: "PromiseRecord"}},
	{Kind: "ReadPromises", Read: &readSpec{Table: "promises", Cols: append(append([]string(nil), promiseReadCols...), "sort_id"), RecType: "PromiseRecord", Pred: "pred.ReadPromises", Args: []string{"cmd.Time"}, Limit: "cmd.Limit"}},
	{Kind: "SearchPromises", Read: &readSpec{Table: "promises", Cols: append(append([]string(nil), promiseReadCols...), "sort_id"), RecType: "PromiseRecord", Pred: "pred.SearchPromises", Limit: "cmd.Limit"}},
	{Kind: "CreatePromise",
		Effects: []tableEffect{{Table: "promises", Fn: "spec.CreatePromise.promises", Auto: true, Args: promiseArgs}},
		Rows:    []rowsSpec{{ResField: "RowsAffected", Fn: "rows.CreatePromise", Pre: []crossRef{{"promises", "cmd.Id"}}}}},
	{Kind: "UpdatePromise",
		Effects: []tableEffect{{Table: "promises", Fn: "spec.UpdatePromise.promises", Args: []string{"cmd.Id", "cmd.State", "json(cmd.Value.Headers)", "cmd.Value.Data", "opt(cmd.IdempotencyKey)", "cmd.CompletedOn"}}},
		Rows:    []rowsSpec{{ResField: "RowsAffected", Fn: "rows.UpdatePromise", Pre: []crossRef{{"promises", "cmd.Id"}}}}},
	{Kind: "CreateCallback",
		Effects: []tableEffect{{Table: "callbacks", Fn: "spec.CreateCallback.callbacks", Args: []string{"cmd.Id", "cmd.PromiseId", "cmd.Mesg.Root", "cmd.Recv", "mesg(cmd.Mesg)", "cmd.Timeout", "cmd.CreatedOn"}, Cross: []crossRef{{"promises", "cmd.PromiseId"}}}},
		Rows:    []rowsSpec{{ResField: "RowsAffected", Fn: "rows.CreateCallback", Pre: []crossRef{{"callbacks", "cmd.Id"}, {"promises", "cmd.PromiseId"}}}}},
	{Kind: "DeleteCallbacks",
		Effects: []tableEffect{{Table: "callbacks", Fn: "spec.DeleteCallbacks.callbacks", Args: []string{"cmd.PromiseId"}}},
		Rows:    []rowsSpec{{ResField: "RowsAffected", CountTable: "callbacks", CountPred: "cb.of", CountArgs: []string{"cmd.PromiseId"}}}},
	{Kind: "ReadSchedule", Read: &readSpec{Table: "schedules", Key: "cmd.Id", RecType: "ScheduleRecord",
		Cols: []string{"id", "description", "cron", "tags", "promise_id", "promise_timeout", "promise_param_headers", "promise_param_data", "promise_tags", "last_run_time", "next_run_time", "idempotency_key", "created_on"}}},
	{Kind: "ReadSchedules", Read: &readSpec{Table: "schedules", RecType: "ScheduleRecord", Pred: "pred.ReadSchedules", Args: []string{"cmd.NextRunTime"}, Limit: "cmd.Limit",
		Cols: []string{"id", "cron", "promise_id", "promise_timeout", "promise_param_headers", "promise_param_data", "promise_tags", "last_run_time", "next_run_time"}}},
	{Kind: "SearchSchedules", Read: &readSpec{Table: "schedules", RecType: "ScheduleRecord", Pred: "pred.SearchSchedules", Limit: "cmd.Limit",
		Cols: []string{"id", "cron", "tags", "last_run_time", "next_run_time", "idempotency_key", "created_on", "sort_id"}}},
	{Kind: "CreateSchedule",
		Effects: []tableEffect{{Table: "schedules", Fn: "spec.CreateSchedule.schedules", Auto: true, Args: []string{"cmd.Id", "cmd.Description", "cmd.Cron", "json(cmd.Tags)", "cmd.PromiseId", "cmd.PromiseTimeout", "json(cmd.PromiseParam.Headers)", "cmd.PromiseParam.Data", "json(cmd.PromiseTags)", "cmd.NextRunTime", "opt(cmd.IdempotencyKey)", "cmd.CreatedOn"}}},
		Rows:    []rowsSpec{{ResField: "RowsAffected", Fn: "rows.CreateSchedule", Pre: []crossRef{{"schedules", "cmd.Id"}}}}},
	{Kind: "UpdateSchedule",
		Effects: []tableEffect{{Table: "schedules", Fn: "spec.UpdateSchedule.schedules", Args: []string{"cmd.Id", "opt(cmd.LastRunTime)", "cmd.NextRunTime"}}},
		Rows:    []rowsSpec{{ResField: "RowsAffected", Fn: "rows.UpdateSchedule", Pre: []crossRef{{"schedules", "cmd.Id"}}, Args: []string{"opt(cmd.LastRunTime)"}}}},
	{Kind: "DeleteSchedule",
		Effects: []tableEffect{{Table: "schedules", Fn: "spec.DeleteSchedule.schedules", Args: []string{"cmd.Id"}}},
		Rows:    []rowsSpec{{ResField: "RowsAffected", Fn: "rows.DeleteSchedule", Pre: []crossRef{{"schedules", "cmd.Id"}}}}},
	{Kind: "ReadTask", Read: &readSpec{Table: "tasks", Key: "cmd.Id", Cols: taskReadCols, RecType: "TaskRecord"}},
	{Kind: "ReadTasks", Read: &readSpec{Table: "tasks", Cols: taskReadCols, RecType: "TaskRecord", Pred: "pred.ReadTasks", Args: []string{"mask(cmd.States)", "cmd.Time"}, Limit: "cmd.Limit"}},
	{Kind: "ReadEnqueueableTasks", CmdFld: "ReadEnquableTasks", Read: &readSpec{Table: "tasks", Cols: taskReadCols, RecType: "TaskRecord", Pred: "pred.ReadEnqueueableTasks", Limit: "cmd.Limit"}},
	{Kind: "CreateTask",
		Effects: []tableEffect{{Table: "tasks", Fn: "spec.CreateTask.tasks", Auto: true, Args: taskArgs}},
		Rows:    []rowsSpec{{ResField: "RowsAffected", Fn: "rows.CreateTask", Pre: []crossRef{{"tasks", "cmd.Id"}}}}},
	{Kind: "CreateTasks",
		Effects: []tableEffect{{Table: "tasks", Fn: "spec.CreateTasks.tasks", Auto: true, Args: []string{"cmd.PromiseId", "cmd.CreatedOn"}, Cross: []crossRef{{"callbacks", "$k"}}}},
		Rows:    []rowsSpec{{ResField: "RowsAffected", CountTable: "callbacks", CountPred: "cb.of", CountArgs: []string{"cmd.PromiseId"}}}},
	{Kind: "CompleteTasks",
		Effects: []tableEffect{{Table: "tasks", Fn: "spec.CompleteTasks.tasks", Args: []string{"cmd.RootPromiseId", "cmd.CompletedOn"}}},
		Rows:    []rowsSpec{{ResField: "RowsAffected", CountTable: "tasks", CountPred: "task.ofroot", CountArgs: []string{"cmd.RootPromiseId"}}}},
	{Kind: "UpdateTask",
		Effects: []tableEffect{{Table: "tasks", Fn: "spec.UpdateTask.tasks", Args: []string{"cmd.Id", "opt(cmd.ProcessId)", "cmd.State", "cmd.Counter", "cmd.Attempt", "cmd.Ttl", "cmd.ExpiresAt", "opt(cmd.CompletedOn)", "mask(cmd.CurrentStates)", "cmd.CurrentCounter"}}},
		Rows:    []rowsSpec{{ResField: "RowsAffected", Fn: "rows.UpdateTask", Pre: []crossRef{{"tasks", "cmd.Id"}}, Args: []string{"mask(cmd.CurrentStates)", "cmd.CurrentCounter"}}}},
	{Kind: "HeartbeatTasks",
		Effects: []tableEffect{{Table: "tasks", Fn: "spec.HeartbeatTasks.tasks", Args: []string{"cmd.ProcessId", "cmd.Time"}}},
		Rows:    []rowsSpec{{ResField: "RowsAffected", CountTable: "tasks", CountPred: "task.heldby", CountArgs: []string{"cmd.ProcessId"}}}},
	{Kind: "CreatePromiseAndTask",
		Effects: []tableEffect{
			{Table: "promises", Fn: "spec.CreatePromise.promises", Auto: true, Args: sub("PromiseCommand", promiseArgs)},
			{Table: "tasks", Fn: "spec.CreatePromiseAndTask.tasks", Auto: true, Args: sub("TaskCommand", taskArgs), Cross: []crossRef{{"promises", "cmd.PromiseCommand.Id"}}}},
		Rows: []rowsSpec{
			{ResField: "PromiseRowsAffected", Fn: "rows.CreatePromise", Pre: []crossRef{{"promises", "cmd.PromiseCommand.Id"}}},
			{ResField: "TaskRowsAffected", Fn: "rows.CreatePromiseAndTask.task", Pre: []crossRef{{"tasks", "cmd.TaskCommand.Id"}, {"promises", "cmd.PromiseCommand.Id"}}}}},
	{Kind: "ReadLock", Read: &readSpec{Table: "locks", Key: "cmd.ResourceId", RecType: "LockRecord", Cols: []string{"resource_id", "process_id", "execution_id", "ttl", "expires_at"}}},
	{Kind: "AcquireLock",
		Effects: []tableEffect{{Table: "locks", Fn: "spec.AcquireLock.locks", Args: []string{"cmd.ResourceId", "cmd.ExecutionId", "cmd.ProcessId", "cmd.Ttl", "cmd.ExpiresAt"}}},
		Rows:    []rowsSpec{{ResField: "RowsAffected", Fn: "rows.AcquireLock", Pre: []crossRef{{"locks", "cmd.ResourceId"}}, Args: []string{"cmd.ExecutionId"}}}},
	{Kind: "ReleaseLock",
		Effects: []tableEffect{{Table: "locks", Fn: "spec.ReleaseLock.locks", Args: []string{"cmd.ResourceId", "cmd.ExecutionId"}}},
		Rows:    []rowsSpec{{ResField: "RowsAffected", Fn: "rows.ReleaseLock", Pre: []crossRef{{"locks", "cmd.ResourceId"}}, Args: []string{"cmd.ExecutionId"}}}},
	{Kind: "HeartbeatLocks",
		Effects: []tableEffect{{Table: "locks", Fn: "spec.HeartbeatLocks.locks", Args: []string{"cmd.ProcessId", "cmd.Time"}}},
		Rows:    []rowsSpec{{ResField: "RowsAffected", CountTable: "locks", CountPred: "lock.ofproc", CountArgs: []string{"cmd.ProcessId"}}}},
	{Kind: "TimeoutLocks",
		Effects: []tableEffect{{Table: "locks", Fn: "spec.TimeoutLocks.locks", Args: []string{"cmd.Timeout"}}},
		Rows:    []rowsSpec{{ResField: "RowsAffected", CountTable: "locks", CountPred: "lock.expired", CountArgs: []string{"cmd.Timeout"}}}},
}

func (c *CmdSpec) cmdField() string {
	if c.CmdFld != "" {
		return c.CmdFld
	}
	return c.Kind
}

func (c *CmdSpec) resField() string {
	if c.ResFld != "" {
		return c.ResFld
	}
	return c.Kind
}

func cmdSpecByKind(kind string) *CmdSpec {
	for _, c := range cmdSpecs {
		if c.Kind == kind {
			return c
		}
	}
	return nil
}

// cmdSpecForType finds the spec for a *t_aio.XCommand type.
func cmdSpecForType(t types.Type) *CmdSpec {
	name := typeShort(t)
	name = strings.TrimPrefix(name, "*")
	name = strings.TrimPrefix(name, "t_aio.")
	name = strings.TrimSuffix(name, "Command")
	if name == "ReadEnqueueableTasks" {
		return cmdSpecByKind("ReadEnqueueableTasks")
	}
	return cmdSpecByKind(name)
}

func snake(s string) string {
	var b strings.Builder
	for i, r := range s {
		if unicode.IsUpper(r) {
			if i > 0 {
				b.WriteByte('_')
			}
			b.WriteRune(unicode.ToLower(r))
		} else {
			b.WriteRune(r)
		}
	}
	return b.String()
}

// cmdEnv builds a spec environment in which "cmd" is the command value.
func (g *GhostDB) cmdEnv(st *State, cmd TV) *SpecEnv {
	env := &SpecEnv{x: g.x, st: st, vars: map[string]TV{"cmd": cmd}}
	env.extra = func(name string, args []TV) (TV, bool) { return g.specBuiltin(env, st, name, args) }
	return env
}

func (g *GhostDB) evalArgs(env *SpecEnv, exprs []string) ([]Term, error) {
	out := make([]Term, 0, len(exprs))
	for _, e := range exprs {
		tv, err := env.EvalValue(e)
		if err != nil {
			return nil, err
		}
		t, err := safeTerm(env, tv)
		if err != nil {
			return nil, fmt.Errorf("%s: %v", e, err)
		}
		out = append(out, t)
	}
	return out, nil
}

func safeTerm(env *SpecEnv, tv TV) (t Term, err error) {
	defer func() {
		if r := recover(); r != nil {
			if se, ok := r.(specError); ok {
				err = fmt.Errorf("%s", string(se))
				return
			}
			panic(r)
		}
	}()
	return env.term(tv), nil
}

// effectAt gives the spec's new row of table eff.Table at key k.
func (g *GhostDB) effectAt(st *State, eff tableEffect, args []Term, crossKeys []Term, pre map[string]*TableVer, k, old Term) Term {
	all := []Term{old, k}
	if eff.Auto {
		f := g.x.sym.Func("autoinc."+eff.Table, []Sort{"Ver", SStr}, SInt)
		all = append(all, App(SInt, f, pre[eff.Table].Ver, k))
	}
	all = append(all, args...)
	for i, cr := range eff.Cross {
		key := k
		if cr.Key != "$k" {
			key = crossKeys[i]
		}
		all = append(all, g.rowAt(st, pre[cr.Table], key))
	}
	return App(rowSort(eff.Table), eff.Fn, all...)
}

type cmdEval struct {
	spec      *CmdSpec
	effArgs   [][]Term
	effCross  [][]Term
	rowsTerms []Term
	pre       map[string]*TableVer
}

// evalCmd evaluates argument terms of a command against the pre-state pre.
func (g *GhostDB) evalCmd(st *State, cs *CmdSpec, cmd TV, pre map[string]*TableVer) (*cmdEval, error) {
	env := g.cmdEnv(st, cmd)
	ce := &cmdEval{spec: cs, pre: pre}
	for _, eff := range cs.Effects {
		args, err := g.evalArgs(env, eff.Args)
		if err != nil {
			return nil, err
		}
		var cks []Term
		for _, cr := range eff.Cross {
			if cr.Key == "$k" {
				cks = append(cks, Term{})
				continue
			}
			kt, err := g.evalArgs(env, []string{cr.Key})
			if err != nil {
				return nil, err
			}
			g.noteKey(kt[0])
			cks = append(cks, kt[0])
		}
		ce.effArgs = append(ce.effArgs, args)
		ce.effCross = append(ce.effCross, cks)
	}
	if cs.Kind == "CreatePromiseAndTask" {
		// ASSUMED INVARIANT (not proved here): a task whose id is invokeTaskId(p) exists only if
		// promise p exists. Task ids made from registrations start with __resume:/__notify:,
		// invocation task ids with __invoke:, and promises never disappear.
		pk, err1 := g.evalArgs(env, []string{"cmd.PromiseCommand.Id"})
		tk, err2 := g.evalArgs(env, []string{"cmd.TaskCommand.Id"})
		if err1 == nil && err2 == nil {
			st.assume(Implies(Not(rowPresent("promises", g.rowAt(st, pre["promises"], pk[0]))), Not(rowPresent("tasks", g.rowAt(st, pre["tasks"], tk[0])))))
			g.x.notes["ASSUMED INVARIANT: a task with id invokeTaskId(p) exists only if promise p exists (used for CreatePromiseAndTask)"] = true
		}
	}
	for _, rs := range cs.Rows {
		if rs.Fn != "" {
			var all []Term
			for _, cr := range rs.Pre {
				kt, err := g.evalArgs(env, []string{cr.Key})
				if err != nil {
					return nil, err
				}
				g.noteKey(kt[0])
				all = append(all, g.rowAt(st, pre[cr.Table], kt[0]))
			}
			args, err := g.evalArgs(env, rs.Args)
			if err != nil {
				return nil, err
			}
			all = append(all, args...)
			ce.rowsTerms = append(ce.rowsTerms, App(SInt, rs.Fn, all...))
		} else {
			args, err := g.evalArgs(env, rs.CountArgs)
			if err != nil {
				return nil, err
			}
			t := g.countTerm(pre[rs.CountTable], rs.CountPred, args)
			st.assume(Ge(t, IntLit(0)))
			ce.rowsTerms = append(ce.rowsTerms, t)
		}
	}
	return ce, nil
}

// applyCmd installs the spec effect of a command as new table versions.
func (g *GhostDB) applyCmd(st *State, ce *cmdEval) {
	pre := ce.pre
	for i, eff := range ce.spec.Effects {
		eff := eff
		args := ce.effArgs[i]
		cks := ce.effCross[i]
		g.pushLayer(eff.Table, ce.spec.Kind, func(st *State, k, old Term) Term {
			return g.effectAt(st, eff, args, cks, pre, k, old)
		})
	}
}
