package main

import (
	"golang.org/x/tools/go/ssa"
)

// Ghost is the per-path ghost state (abstract database, clock, yield log).
type Ghost struct {
	db *GhostDB
}

func (g *Ghost) clone() *Ghost {
	n := &Ghost{}
	if g.db != nil {
		n.db = g.db.clone()
	}
	return n
}

func (g *Ghost) atLoopEntry(x *Exec, st *State, fr *Frame, l *loopInfo) {
	if g.db != nil {
		g.db.atLoopEntry(x, st, fr, l)
	}
}

func (g *Ghost) atOpaqueCall(x *Exec, st *State, fr *Frame, c *callCtx, ct *Contract) {
	if g.db != nil {
		g.db.atOpaqueCall(x, st, fr, c, ct)
	}
}

// extendEnv adds ghost names to a spec environment.
func (x *Exec) extendEnv(env *SpecEnv, st *State, fr *Frame) {
	if st.ghost != nil && st.ghost.db != nil {
		st.ghost.db.extendEnv(x, env, st, fr)
	}
	prev := env.extra
	env.extra = func(name string, args []TV) (TV, bool) {
		if tv, ok := x.frontBuiltin(env, st, name, args); ok {
			return tv, true
		}
		if prev != nil {
			return prev(name, args)
		}
		return TV{}, false
	}
}

var _ = ssa.NewProgram
