package main

// Calls: intrinsics (the external table, every entry an assumption that is
// echoed into the evidence), contracts, and bounded inlining of small
// repository helpers.

import (
	"fmt"
	"go/token"
	"go/types"
	"os"
	"regexp"
	"strings"

	"golang.org/x/tools/go/ssa"
)

type Intrinsic func(x *Exec, st *State, fr *Frame, c *callCtx) bool

type callCtx struct {
	common *ssa.CallCommon
	fn     *ssa.Function // static callee when known
	sig    *calleeSig    // set when the callee is an interface method under contract (fn == nil)
	viaFV  bool          // reached through a funcvalue directive: requires tagged [captured] are assumed
	name   string
	args   []Value // includes receiver first for methods
	ret    ssa.Value
	defer_ bool
}

// calleeSig describes a callee by names and types only: what a contract needs to bind its
// parameters and results. It is built from an ssa.Function or from an interface method.
type calleeSig struct {
	name    string
	pkg     *types.Package
	params  []*types.Var // receiver first for methods
	results *types.Tuple
}

func sigOfFunc(fn *ssa.Function) *calleeSig {
	cs := &calleeSig{name: fn.Name(), results: fn.Signature.Results()}
	if fn.Pkg != nil {
		cs.pkg = fn.Pkg.Pkg
	} else if fn.Parent() != nil && fn.Parent().Pkg != nil {
		cs.pkg = fn.Parent().Pkg.Pkg
	}
	for _, p := range fn.Params {
		cs.params = append(cs.params, types.NewVar(p.Pos(), cs.pkg, p.Name(), p.Type()))
	}
	return cs
}

func sigOfIfaceMethod(recv types.Type, m *types.Func) *calleeSig {
	sig := m.Type().(*types.Signature)
	cs := &calleeSig{name: m.Name(), pkg: m.Pkg(), results: sig.Results()}
	cs.params = append(cs.params, types.NewVar(m.Pos(), m.Pkg(), "self", recv))
	for i := 0; i < sig.Params().Len(); i++ {
		p := sig.Params().At(i)
		if p.Name() == "" || p.Name() == "_" {
			p = types.NewVar(p.Pos(), p.Pkg(), fmt.Sprintf("arg%d", i), p.Type())
		}
		cs.params = append(cs.params, p)
	}
	return cs
}

func (c *callCtx) calleeSig() *calleeSig {
	if c.sig != nil {
		return c.sig
	}
	return sigOfFunc(c.fn)
}

var genericRe = regexp.MustCompile(`\[[^\]]*\]`)

func stripGenerics(s string) string {
	// strip the outermost [...] instantiation suffixes
	out := s
	for {
		i := strings.Index(out, "[")
		if i < 0 {
			return out
		}
		depth := 0
		j := i
		for ; j < len(out); j++ {
			if out[j] == '[' {
				depth++
			} else if out[j] == ']' {
				depth--
				if depth == 0 {
					break
				}
			}
		}
		if j >= len(out) {
			return out
		}
		out = out[:i] + out[j+1:]
	}
}

func calleeName(fn *ssa.Function) string {
	return stripGenerics(fn.RelString(nil))
}

func (x *Exec) finish(st *State, fr *Frame, c *callCtx, v Value) bool {
	if st.dead {
		return true
	}
	if c.ret != nil && v != nil {
		fr.env[c.ret] = v
	}
	if !c.defer_ {
		fr.ip++
	}
	return true
}

func (x *Exec) call(st *State, fr *Frame, i *ssa.Call) {
	common := i.Common()
	args := make([]Value, 0, len(common.Args)+1)
	var fnVal Value
	if common.IsInvoke() {
		fnVal = x.force(st, x.eval(st, fr, common.Value))
	} else if common.StaticCallee() == nil {
		fnVal = x.force(st, x.eval(st, fr, common.Value))
	}
	for _, a := range common.Args {
		args = append(args, x.eval(st, fr, a))
	}
	if st.dead {
		return
	}
	x.callValue(st, fr, common, fnVal, args, i, false)
}

// callValue performs a call. fnVal is the receiver (invoke mode) or the
// function value (dynamic call); nil for static calls.
func (x *Exec) callValue(st *State, fr *Frame, common *ssa.CallCommon, fnVal Value, args []Value, ret ssa.Value, isDefer bool) {
	c := &callCtx{common: common, args: args, ret: ret, defer_: isDefer}
	if common.IsInvoke() {
		iv, ok := fnVal.(VIface)
		if !ok {
			x.unsupported(st, fmt.Sprintf("invoke on %T", fnVal))
			return
		}
		mname := common.Method.Name()
		recvT := common.Value.Type()
		if iv.Dyn != nil {
			// concrete receiver: resolve the method
			sel := x.prog.ssa.MethodSets.MethodSet(iv.Dyn).Lookup(common.Method.Pkg(), mname)
			if sel != nil {
				if fn := x.prog.ssa.MethodValue(sel); fn != nil {
					x.oblige(st, "nil-deref", "method call on nil interface", Not(iv.Nil), common.Pos(), nil)
					c.fn = fn
					c.name = calleeName(fn)
					c.args = append([]Value{iv.Val}, args...)
					x.dispatch(st, fr, c)
					return
				}
			}
		}
		c.name = "(" + stripGenerics(types.TypeString(recvT, nil)) + ")." + mname
		c.args = append([]Value{iv}, args...)
		if x.contract != nil && x.contract.Directives["abstract-calls"] != nil {
			if msig, _ := common.Method.Type().(*types.Signature); msig != nil {
				asig := types.NewSignatureType(types.NewVar(token.NoPos, nil, "self", recvT), nil, nil, msig.Params(), msig.Results(), msig.Variadic())
				if x.abstractCallF(st, fr, c, mname, asig, true) {
					return
				}
			}
		}
		if in, ok := x.lookupIntrinsic(c.name); ok {
			x.oblige(st, "nil-deref", "method call on nil interface", Not(iv.Nil), common.Pos(), nil)
			if !iv.Nil.IsFalse() {
				st.assume(Not(iv.Nil))
			}
			// "site call <Method> assert e" also at modelled interface methods: self, arg0.. (or their names)
			if x.contract != nil && x.contract.Directives["site"] != nil && len(st.frames) > 0 && fr == st.frames[0] {
				if msig, _ := common.Method.Type().(*types.Signature); msig != nil {
					bind := map[string]TV{"self": {iv, recvT}}
					for i := 0; i < msig.Params().Len() && i < len(args); i++ {
						bind[fmt.Sprintf("arg%d", i)] = TV{args[i], msig.Params().At(i).Type()}
					}
					x.siteAsserts(st, fr, "call", mname, bind)
					if st.dead {
						return
					}
				}
			}
			x.usedIntrinsic(c.name)
			in(x, st, fr, c)
			return
		}
		if x.contract != nil && x.contract.Directives["abstract-calls"] != nil && len(st.frames) > 0 && fr == st.frames[0] {
			msig, _ := common.Method.Type().(*types.Signature)
			bind := map[string]TV{"self": {iv, recvT}}
			if msig != nil {
				for i := 0; i < msig.Params().Len() && i < len(args); i++ {
					bind[fmt.Sprintf("arg%d", i)] = TV{args[i], msig.Params().At(i).Type()}
					if n := msig.Params().At(i).Name(); n != "" {
						bind[n] = TV{args[i], msig.Params().At(i).Type()}
					}
				}
			}
			x.siteAsserts(st, fr, "call", mname, bind)
			if st.dead {
				return
			}
			var asig *types.Signature
			if msig != nil {
				asig = types.NewSignatureType(types.NewVar(token.NoPos, nil, "self", recvT), nil, nil, msig.Params(), msig.Results(), msig.Variadic())
			}
			if x.abstractCall(st, fr, c, mname, asig) {
				return
			}
		}
		if ct := x.prog.contracts.byKey[x.prog.ifaceKey(recvT, mname)]; ct != nil {
			x.oblige(st, "nil-deref", "method call on nil interface", Not(iv.Nil), common.Pos(), nil)
			if !iv.Nil.IsFalse() {
				st.assume(Not(iv.Nil))
			}
			c.sig = sigOfIfaceMethod(recvT, common.Method)
			// "site call <Method> assert e" at interface calls: parameters self, arg0.. (or their names)
			bind := map[string]TV{}
			for i, p := range c.sig.params {
				if i < len(c.args) {
					bind[p.Name()] = TV{c.args[i], p.Type()}
				}
			}
			x.siteAsserts(st, fr, "call", mname, bind)
			x.applyContract(st, fr, c, ct)
			return
		}
		x.unsupported(st, "interface method "+c.name)
		return
	}
	if fn := common.StaticCallee(); fn != nil {
		c.fn = fn
		c.name = calleeName(fn)
		if _, isClosure := common.Value.(*ssa.MakeClosure); isClosure {
			cl := x.eval(st, fr, common.Value).(VClosure)
			c.args = append(append([]Value(nil), args...), cl.Binds...)
		}
		x.dispatch(st, fr, c)
		return
	}
	if b, ok := common.Value.(*ssa.Builtin); ok {
		x.builtin(st, fr, b, c)
		return
	}
	switch fv := fnVal.(type) {
	case VClosure:
		c.fn = fv.Fn
		c.name = calleeName(fv.Fn)
		c.args = append(append([]Value(nil), args...), fv.Binds...)
		x.dispatch(st, fr, c)
	case VOpaque:
		if in, ok := x.lookupIntrinsic("funcvalue:" + fv.Name); ok {
			c.name = "funcvalue:" + fv.Name
			x.usedIntrinsic(c.name)
			in(x, st, fr, c)
			return
		}
		// "funcvalue <regexp> is <function>": unknown function values whose access path matches are
		// instances of the named function (closure); the call uses that function's contract
		if x.contract != nil {
			for _, d := range x.contract.Directives["funcvalue"] {
				if rp := strings.SplitN(d, " records ", 2); len(rp) == 2 {
					// "funcvalue <regexp> records <name>": a callback supplied by the caller: no effect on
					// verified state, arbitrary results, every call is recorded
					re, err := regexp.Compile(strings.TrimSpace(rp[0]))
					if err != nil || !re.MatchString(fv.Name) {
						continue
					}
					sig, _ := fv.Typ.Underlying().(*types.Signature)
					var as []TV
					for i, a := range args {
						if sig != nil && i < sig.Params().Len() {
							as = append(as, TV{a, sig.Params().At(i).Type()})
						}
					}
					var results []Value
					rv := x.symbolicResult(st, c)
					if t, ok := rv.(VTuple); ok {
						results = t.E
					} else if rv != nil {
						results = []Value{rv}
					}
					if sig != nil {
						for i := 0; i < sig.Results().Len(); i++ {
							as = append(as, TV{nil, sig.Results().At(i).Type()})
						}
					}
					st.rec = append(append([]recordedCall(nil), st.rec...), recordedCall{Name: strings.TrimSpace(rp[1]), Args: as, Results: results})
					x.finish(st, fr, c, rv)
					return
				}
				parts := strings.SplitN(d, " is ", 2)
				if len(parts) != 2 {
					continue
				}
				re, err := regexp.Compile(strings.TrimSpace(parts[0]))
				if err != nil || !re.MatchString(fv.Name) {
					continue
				}
				key := strings.TrimSpace(parts[1])
				if !strings.Contains(key, ":") {
					key = x.prog.funcKey(x.fn)[:strings.Index(x.prog.funcKey(x.fn), ":")+1] + key
				}
				fn := x.prog.lookupFunc(key)
				ct := x.prog.contracts.byKey[key]
				if fn == nil || ct == nil {
					x.unsupported(st, "funcvalue directive names "+key+" which has no contract")
					return
				}
				c.fn = fn
				c.name = calleeName(fn)
				c.args = append([]Value(nil), args...)
				x.callCounter++
				for _, v := range fn.FreeVars {
					c.args = append(c.args, x.symbolic(st, v.Type(), fmt.Sprintf("funcvalue!%d.%s", x.callCounter, v.Name())))
				}
				c.viaFV = true
				x.notes["ASSUMED: function values matching "+strings.TrimSpace(parts[0])+" are instances of "+key] = true
				x.applyContract(st, fr, c, ct)
				return
			}
		}
		if strings.HasPrefix(fv.Name, "nil") {
			x.oblige(st, "nil-deref", "call of nil function value", TFalse, common.Pos(), nil)
			st.dead = true
			return
		}
		x.unsupported(st, "call of opaque function value "+fv.Name)
	default:
		x.unsupported(st, fmt.Sprintf("dynamic call through %T", fnVal))
	}
}

func (x *Exec) lookupIntrinsic(name string) (Intrinsic, bool) {
	if in, ok := intrinsics[name]; ok {
		return in, true
	}
	for _, p := range intrinsicPrefixes {
		if strings.HasPrefix(name, p.prefix) {
			return p.fn, true
		}
	}
	return nil, false
}

func (x *Exec) intrinsicFor(fn *ssa.Function) (Intrinsic, bool) {
	return x.lookupIntrinsic(calleeName(fn))
}

func (x *Exec) usedIntrinsic(name string) { x.usedExt[name] = true }

func (x *Exec) onStack(st *State, fn *ssa.Function) bool {
	for _, f := range st.frames {
		if f.fn == fn {
			return true
		}
	}
	return false
}

func (x *Exec) dispatch(st *State, fr *Frame, c *callCtx) {
	fn := c.fn
	// "site deepcall <callee> assert e": like "site call", but also for calls made by helpers that are executed
	// in place (any depth); e is evaluated in the unit's own frame (typically "false": the unit, including
	// what it inlines, never calls this)
	if x.contract != nil && x.contract.Directives["site"] != nil && len(st.frames) > 0 && fn != nil {
		x.curCallee = calleeName(fn)
		x.deepSite = true
		x.siteAsserts(st, st.frames[0], "deepcall", fn.Name(), nil)
		x.deepSite = false
		x.curCallee = ""
		if st.dead {
			return
		}
	}
	if x.contract != nil && x.contract.Directives["site"] != nil && len(st.frames) > 0 && fr == st.frames[0] {
		bind := map[string]TV{}
		for i, p := range fn.Params {
			if i < len(c.args) {
				bind[p.Name()] = TV{c.args[i], p.Type()}
			}
		}
		if len(fn.Params) == 0 {
			// a function without a body (standard library, other modules): arguments are arg0, arg1, ...
			// (a method's receiver is self)
			sig := fn.Signature
			k := 0
			if sig.Recv() != nil && len(c.args) > 0 {
				bind["self"] = TV{c.args[0], sig.Recv().Type()}
				k = 1
			}
			for i := 0; i < sig.Params().Len() && k+i < len(c.args); i++ {
				bind[fmt.Sprintf("arg%d", i)] = TV{c.args[k+i], sig.Params().At(i).Type()}
			}
		}
		x.curCallee = calleeName(fn)
		x.siteAsserts(st, fr, "call", fn.Name(), bind)
		x.curCallee = ""
		if st.dead {
			return
		}
	}
	if x.contract != nil && x.contract.Directives["abstract-calls"] != nil && x.abstractCallF(st, fr, c, fn.Name(), fn.Signature, true) {
		return
	}
	if in, ok := x.lookupIntrinsic(c.name); ok {
		x.usedIntrinsic(c.name)
		in(x, st, fr, c)
		return
	}
	// "abstract-calls <regexp>": direct calls of the unit to matching functions are not executed and no
	// contract is applied: the result is arbitrary and the heap is left alone. What the unit then proves
	// is only what it asserts about the calls themselves (site call assertions) and its own control flow;
	// listed in evidence as ABSTRACTED.
	if x.abstractCall(st, fr, c, fn.Name(), fn.Signature) {
		return
	}
	key := x.prog.funcKey(fn)
	contract := x.prog.contracts.byKey[key]
	recursive := x.onStack(st, fn)
	useAll := x.contract != nil && x.contract.Directives["use-contracts"] != nil && len(st.frames) == 1
	if contract != nil && (recursive || contract.Directives["opaque"] != nil || x.forceContract[key] || useAll) {
		x.applyContract(st, fr, c, contract)
		return
	}
	if recursive {
		x.unsupported(st, "recursive call to "+c.name+" without contract")
		return
	}
	if fn.Blocks == nil || (!x.prog.inRepo(fn) && !allowInline(c.name)) {
		if x.pureFallback(st, fr, c) {
			return
		}
		// "abstract-calls external": a function outside the repository that the engine has no model for is
		// abstracted (arbitrary result, no effect on the verified state), at any inlining depth
		if x.contract != nil {
			for _, d := range x.contract.Directives["abstract-calls"] {
				if strings.TrimSpace(d) == "external" {
					x.notes["ABSTRACTED: external function "+c.name+" (arbitrary result, effects not modelled)"] = true
					x.finish(st, fr, c, x.symbolicResult(st, c))
					return
				}
			}
		}
		x.unsupported(st, "call to external function "+c.name)
		return
	}
	if len(st.frames) > x.depthMax+6 {
		x.unsupported(st, "inlining depth exceeded at "+c.name)
		return
	}
	x.inlined[key] = true
	// a callee whose contract says "records <name>" is recorded also when its body is executed in place
	// (arguments only; its results are whatever the body computes)
	if contract != nil {
		if rd := contract.Directives["records"]; rd != nil {
			var as []TV
			for i, p := range fn.Params {
				if i < len(c.args) {
					as = append(as, TV{c.args[i], p.Type()})
				}
			}
			st.rec = append(append([]recordedCall(nil), st.rec...), recordedCall{Name: strings.TrimSpace(rd[0]), Args: as})
		}
	}
	x.pushFrame(st, fn, c.args, c.ret, c.defer_)
}

// abstractCall implements "abstract-calls <regexp>" for a call of the unit under verification to a function
// or interface method called name: arbitrary result, heap untouched, the call recorded under its name
// (calls("name"), callarg, callswith talk about it).
func (x *Exec) abstractCall(st *State, fr *Frame, c *callCtx, name string, sig *types.Signature) bool {
	return x.abstractCallF(st, fr, c, name, sig, false)
}

// abstractCallF: with forcedOnly only directives of the form "abstract-calls force <regexp>" apply; they take
// precedence over the engine's intrinsics (used where a unit wants to talk about a call the engine would
// otherwise model itself, e.g. the scheduler's Size in System.Done).
func (x *Exec) abstractCallF(st *State, fr *Frame, c *callCtx, name string, sig *types.Signature, forcedOnly bool) bool {
	if x.contract == nil || len(st.frames) == 0 || fr != st.frames[0] {
		return false
	}
	for _, d := range x.contract.Directives["abstract-calls"] {
		d = strings.TrimSpace(d)
		forced := strings.HasPrefix(d, "force ")
		if forced {
			d = strings.TrimSpace(strings.TrimPrefix(d, "force "))
		}
		if forcedOnly && !forced {
			continue
		}
		if d == "external" {
			continue
		}
		re, err := regexp.Compile(d)
		if err != nil || !re.MatchString(name) {
			continue
		}
		x.notes["ABSTRACTED: call to "+c.name+" (arguments checked by site assertions only; effects not modelled)"] = true
		v := x.symbolicResult(st, c)
		var as []TV
		if sig != nil {
			k := 0
			if sig.Recv() != nil && len(c.args) > 0 {
				as = append(as, TV{c.args[0], sig.Recv().Type()})
				k = 1
			}
			for i := 0; i < sig.Params().Len() && k+i < len(c.args); i++ {
				as = append(as, TV{c.args[k+i], sig.Params().At(i).Type()})
			}
		}
		var results []Value
		if t, ok := v.(VTuple); ok {
			results = t.E
		} else if v != nil {
			results = []Value{v}
		}
		if sig != nil {
			for i := 0; i < sig.Results().Len(); i++ {
				as = append(as, TV{nil, sig.Results().At(i).Type()})
			}
		}
		recName := name
		if i := strings.Index(recName, "["); i > 0 {
			recName = recName[:i] // an instance of a generic function is recorded under the generic's name
		}
		st.rec = append(append([]recordedCall(nil), st.rec...), recordedCall{Name: recName, Args: as, Results: results})
		x.finish(st, fr, c, v)
		return true
	}
	return false
}

func allowInline(name string) bool {
	for _, p := range []string{"github.com/resonatehq/gocoro/pkg/promise."} {
		if strings.HasPrefix(name, p) {
			return true
		}
	}
	return false
}

func (x *Exec) pushFrame(st *State, fn *ssa.Function, args []Value, ret ssa.Value, isDefer bool) *Frame {
	x.frameCounter++
	nf := &Frame{id: x.frameCounter, fn: fn, env: map[ssa.Value]Value{}, block: fn.Blocks[0], cut: map[*ssa.BasicBlock]*loopCut{}, retInstr: ret}
	for i, p := range fn.Params {
		if i < len(args) {
			nf.env[p] = args[i]
		}
	}
	for i, fv := range fn.FreeVars {
		idx := len(fn.Params) + i
		if idx < len(args) {
			nf.env[fv] = args[idx]
		}
	}
	nf.params = args
	nf.entryHeap = st.heap // snapshot by reference: heap maps are copied on clone only
	// take a real snapshot for old()
	snap := make(map[int]Value, len(st.heap))
	for k, v := range st.heap {
		snap[k] = v
	}
	nf.entryHeap = snap
	nf.isDefer = isDefer
	st.frames = append(st.frames, nf)
	return nf
}

// applyContract replaces a call by the callee's contract.
func (x *Exec) applyContract(st *State, fr *Frame, c *callCtx, ct *Contract) {
	cs := c.calleeSig()
	env := x.specEnvForSig(st, cs, c.fn, c.args, nil, nil)
	x.extendEnv(env, st, fr)
	// the callee's ghost constants: its contract holds for every value, here for a fresh arbitrary one
	x.callCounter++
	ghosts := map[string]TV{}
	for _, d := range ct.Directives["ghost"] {
		f := strings.Fields(d)
		if len(f) != 2 {
			continue
		}
		nm := fmt.Sprintf("ghost.%s!%d", f[0], x.callCounter)
		if c.fn != nil && c.fn == x.fn {
			// a recursive call: the callee's contract holds for every value of its ghost, in particular
			// for the caller's own
			nm = "ghost." + f[0]
		}
		switch f[1] {
		case "int":
			ghosts[f[0]] = TV{VScalar{x.sym.Named(nm, SInt)}, types.Typ[types.Int]}
		case "string":
			ghosts[f[0]] = TV{VScalar{x.sym.Named(nm, SStr)}, types.Typ[types.String]}
		case "bool":
			ghosts[f[0]] = TV{VScalar{x.sym.Named(nm, SBool)}, types.Typ[types.Bool]}
		}
	}
	for k, v := range ghosts {
		env.vars[k] = v
	}
	assumeReq := x.contract != nil && x.contract.Directives["assume-callee-requires"] != nil
	for _, cl := range ct.Requires {
		t, err := env.EvalBool(cl.Text)
		if err != nil {
			x.unsupported(st, err.Error())
			return
		}
		captured := false
		for _, p := range cl.Props {
			if p == "captured" {
				captured = true
			}
		}
		if !assumeReq && !(c.viaFV && captured) {
			x.oblige(st, "requires", fmt.Sprintf("precondition of %s: %s", c.name, cl.Text), t, c.common.Pos(), ct.clauseProps(cl))
		}
		st.assume(t)
	}
	// prepared-statement bindings of the callee: the statement passed must carry that SQL text
	for _, d := range ct.Directives["stmt"] {
		parts := strings.Fields(d)
		if len(parts) != 2 {
			continue
		}
		for i, p := range cs.params {
			if p.Name() != parts[0] || i >= len(c.args) {
				continue
			}
			want, _ := x.prog.constString(cs.pkg.Path(), parts[1])
			so := x.stmtOf(st, c.args[i])
			ok := so != nil && so.Text == want
			x.oblige(st, "stmt-binding", fmt.Sprintf("%s is called with the statement prepared from %s", c.name, parts[1]), BoolLit(ok), c.common.Pos(), ct.Props)
		}
	}
	heap0 := make(map[int]Value, len(st.heap))
	for k, v := range st.heap {
		heap0[k] = v
	}
	x.callCounter++
	sig := cs.results
	results := make([]Value, sig.Len())
	for i := range results {
		results[i] = x.symbolic(st, sig.At(i).Type(), fmt.Sprintf("%s!%d.result%d", cs.name, x.callCounter, i))
	}
	if st.ghost != nil {
		st.ghost.atOpaqueCall(x, st, fr, c, ct)
	}
	env = x.specEnvForSig(st, cs, c.fn, c.args, results, heap0)
	x.extendEnv(env, st, fr)
	for k, v := range ghosts {
		env.vars[k] = v
	}
	env.assume = true
	for _, cl := range ct.Ensures {
		// a clause tagged "body" speaks about what the callee's body does internally (its own recorded
		// calls); it is proved for the callee and means nothing at a call site
		skip := false
		for _, p := range cl.Props {
			if p == "body" {
				skip = true
			}
		}
		if skip {
			continue
		}
		t, err := env.EvalBool(cl.Text)
		if err != nil {
			x.unsupported(st, err.Error())
			return
		}
		st.assume(t)
	}
	x.usedContracts[ct.Key] = true
	if rd := ct.Directives["records"]; rd != nil {
		var as []TV
		for i, p := range cs.params {
			if i < len(c.args) {
				as = append(as, TV{c.args[i], p.Type()})
			}
		}
		for i := 0; i < sig.Len(); i++ {
			as = append(as, TV{nil, sig.At(i).Type()})
		}
		st.rec = append(append([]recordedCall(nil), st.rec...), recordedCall{Name: strings.TrimSpace(rd[0]), Args: as, Results: results})
	}
	var rv Value
	if len(results) == 1 {
		rv = results[0]
	} else if len(results) > 1 {
		rv = VTuple{results}
	}
	// "logs <name>": the ghost transaction log records whether the call succeeded
	if lg := ct.Directives["logs"]; lg != nil && st.ghost != nil && st.ghost.db != nil && len(results) > 0 {
		if ev, ok := results[len(results)-1].(VIface); ok {
			name := strings.TrimSpace(lg[0])
			ts, fs := x.fork(st, ev.Nil, name+" succeeds")
			if ts != nil {
				ts.ghost.db.txLog = append(append([]string(nil), ts.ghost.db.txLog...), name+"-ok")
				x.completeCall(ts, c, rv)
			}
			if fs != nil {
				fs.ghost.db.txLog = append(append([]string(nil), fs.ghost.db.txLog...), name+"-err")
				x.completeCall(fs, c, rv)
			}
			return
		}
	}
	x.finish(st, fr, c, rv)
}

// --------------------------------------------------------------------------
// builtins

func (x *Exec) builtin(st *State, fr *Frame, b *ssa.Builtin, c *callCtx) {
	args := c.args
	for i := range args {
		args[i] = x.force(st, args[i])
	}
	switch b.Name() {
	case "len", "cap":
		switch v := args[0].(type) {
		case VSlice:
			x.finish(st, fr, c, VScalar{v.Len})
		case VBytes:
			x.finish(st, fr, c, VScalar{App(SInt, "bytes.len", v.B)})
		case VScalar:
			x.finish(st, fr, c, VScalar{App(SInt, "slen", v.T)})
		case VMap:
			if v.Obj < 0 {
				x.finish(st, fr, c, VScalar{IntLit(0)})
				return
			}
			switch m := st.heap[v.Obj].(type) {
			case MapSS:
				x.finish(st, fr, c, VScalar{App(SInt, "smap.len", m.A)})
			case *MapGen:
				x.finish(st, fr, c, VScalar{m.LenT})
			}
		case VChan:
			if b.Name() == "len" {
				x.finish(st, fr, c, VScalar{x.chanLen(st, v)})
			} else {
				t := x.sym.Fresh("chan.cap", SInt)
				st.assume(Ge(t, IntLit(0)))
				x.finish(st, fr, c, VScalar{t})
			}
		case VArray:
			x.finish(st, fr, c, VScalar{IntLit(int64(len(v.E)))})
		default:
			x.unsupported(st, fmt.Sprintf("len of %T", args[0]))
		}
	case "append":
		x.appendBuiltin(st, fr, c)
	case "panic":
		x.oblige(st, "panic", "explicit panic reachable", TFalse, c.common.Pos(), nil)
		st.dead = true
	case "delete":
		m, ok := args[0].(VMap)
		if !ok || m.Obj < 0 {
			x.finish(st, fr, c, nil)
			return
		}
		switch mc := st.heap[m.Obj].(type) {
		case MapSS:
			st.heap[m.Obj] = MapSS{A: App(SMapSS, "store", mc.A, x.scalar(st, args[1]), Term{"none", SOptS})}
		case *MapGen:
			kt, _ := x.keyTerm(st, args[1])
			cp := *mc
			cp.Entries = nil
			done := false
			for _, e := range mc.Entries {
				if e.Key.S == kt.S {
					cp.Entries = append(cp.Entries, MapEntry{Key: kt, Present: TFalse, Val: e.Val})
					done = true
				} else if Eq(e.Key, kt).IsFalse() {
					cp.Entries = append(cp.Entries, e)
				} else {
					x.noteAlias(st, "delete with possibly aliasing symbolic key forgets the older entry")
				}
			}
			if !done {
				cp.Entries = append(cp.Entries, MapEntry{Key: kt, Present: TFalse, Val: x.zero(st, mc.Typ.Elem())})
			}
			cp.LenT = x.sym.Fresh(cp.Name+".len", SInt)
			st.assume(Ge(cp.LenT, IntLit(0)))
			st.heap[m.Obj] = &cp
		}
		x.finish(st, fr, c, nil)
	case "close":
		ch, ok := args[0].(VChan)
		if !ok {
			x.unsupported(st, "close of non channel")
			return
		}
		x.oblige(st, "chan", "close of nil channel", Not(ch.Nil), c.common.Pos(), nil)
		if ch.Obj >= 0 {
			if co, ok := st.heap[ch.Obj].(*ChanObj); ok {
				closed := co.Closed
				if closed.S == "" {
					closed = TFalse
				}
				x.oblige(st, "chan", "close of closed channel", Not(closed), c.common.Pos(), nil)
				cp := *co
				cp.Closed = TTrue
				st.heap[ch.Obj] = &cp
			}
		}
		x.finish(st, fr, c, nil)
	case "copy":
		x.unsupported(st, "copy builtin")
	case "print", "println":
		x.finish(st, fr, c, nil)
	case "min", "max":
		a, b2 := x.scalar(st, args[0]), x.scalar(st, args[1])
		if b.Name() == "min" {
			x.finish(st, fr, c, VScalar{Ite(Le(a, b2), a, b2)})
		} else {
			x.finish(st, fr, c, VScalar{Ite(Ge(a, b2), a, b2)})
		}
	case "ssa:wrapnilchk":
		p, ok := args[0].(VPtr)
		if ok {
			x.derefCheck(st, p, "nil receiver", c.common.Pos())
		}
		x.finish(st, fr, c, args[0])
	default:
		x.unsupported(st, "builtin "+b.Name())
	}
}

func (x *Exec) appendBuiltin(st *State, fr *Frame, c *callCtx) {
	a0 := x.force(st, c.args[0])
	a1 := x.force(st, c.args[1])
	// "count-appends": every append of the unit's own frame is recorded as a call named "append", so that
	// a backedge assertion can say how many elements an iteration contributed (itercalls("append"))
	if x.contract != nil && x.contract.Directives["count-appends"] != nil && len(st.frames) > 0 && fr == st.frames[0] {
		st.rec = append(append([]recordedCall(nil), st.rec...), recordedCall{Name: "append"})
	}
	if b0, ok := a0.(VBytes); ok {
		_ = b0
		x.finish(st, fr, c, VBytes{Nil: TFalse, B: x.sym.Fresh("bytes.append", SBytes)})
		return
	}
	s0, ok0 := a0.(VSlice)
	s1, ok1 := a1.(VSlice)
	if !ok0 || !ok1 {
		x.unsupported(st, fmt.Sprintf("append(%T, %T)", a0, a1))
		return
	}
	elemsOf := func(s VSlice) ([]Value, bool) {
		if s.Arr < 0 {
			return nil, true
		}
		arr, ok := st.heap[s.Arr].(VArray)
		if !ok {
			return nil, false
		}
		n, ok := isIntLit(s.Len)
		if !ok {
			return nil, false
		}
		return arr.E[s.Lo : s.Lo+int(n)], true
	}
	e0, c0 := elemsOf(s0)
	e1, c1 := elemsOf(s1)
	// "site [loop N] append <ElemType> assert e": e holds for every element (bound to elem) appended
	// to a slice of that element type
	if c1 && len(st.frames) > 0 && fr == st.frames[0] {
		if slt, ok := s0.Typ.Underlying().(*types.Slice); ok {
			et := slt.Elem()
			tn := stripGenerics(types.TypeString(et, func(*types.Package) string { return "" }))
			tn = strings.TrimLeft(tn, "*")
			if i := strings.LastIndex(tn, "."); i >= 0 {
				tn = tn[i+1:]
			}
			for _, ev := range e1 {
				x.siteAsserts(st, fr, "append", tn, map[string]TV{"elem": {ev, et}})
			}
		}
	}
	if c0 && c1 {
		// both concrete. A possibly-nil symbolic flag only matters for nilness of the result.
		all := append(append([]Value(nil), e0...), e1...)
		if len(all) == 0 {
			x.finish(st, fr, c, VSlice{Nil: s0.Nil, Arr: -1, Len: IntLit(0), Typ: s0.Typ})
			return
		}
		obj := x.alloc(st, VArray{all})
		x.finish(st, fr, c, VSlice{Nil: TFalse, Arr: obj, Len: IntLit(int64(len(all))), Typ: s0.Typ})
		return
	}
	// commands appended to a slice of symbolic length are checked now (see batch.go)
	if isCommandSlice(s0.Typ) && st.ghost != nil && st.ghost.db != nil && st.ghost.db.mode == "coroutine" {
		for _, ev := range e1 {
			if p, ok := x.force(st, ev).(VPtr); ok && c1 {
				x.checkBatchCommand(st, p)
			}
		}
		if !c1 {
			x.notes["commands appended from a slice of symbolic length (variadic additionalCmds) are checked where the caller builds them; the closure is verified with that tail summarised by a rely step"] = true
		}
	}
	// at least one abstract operand: the result is an abstract array that keeps
	// the known cells of both operands.
	elem := s0.Typ.Underlying().(*types.Slice).Elem()
	na := &VAbsArr{Len: Add(s0.Len, s1.Len), Elem: elem, Name: "append"}
	addCells := func(s VSlice, off Term, conc []Value, isConc bool) {
		if isConc {
			for k, v := range conc {
				na.Cells = append(na.Cells, AbsCell{Idx: Add(off, IntLit(int64(k))), Val: v})
			}
			return
		}
		if s.Arr < 0 {
			return
		}
		if abs, ok := st.heap[s.Arr].(*VAbsArr); ok {
			for _, cell := range abs.Cells {
				na.Cells = append(na.Cells, AbsCell{Idx: Add(off, cell.Idx), Val: cell.Val})
			}
			if _, z := isIntLit(off); z && off.S == "0" {
				src := s.Arr
				ex := x
				s1len := s0.Len
				gen := abs.ElemGen
				name := abs.Name
				_ = src
				_ = ex
				_ = s1len
				_ = gen
				_ = name
			}
		}
	}
	addCells(s0, IntLit(0), e0, c0)
	// a tracked cell of the first operand whose index may be >= its length (it was materialised by a read
	// at an arbitrary index) must not shadow the appended elements: decide now whether it lies in range
	if !c0 && s0.Arr >= 0 {
		if abs, ok := st.heap[s0.Arr].(*VAbsArr); ok {
			for ci, cell := range abs.Cells {
				inRange := Lt(cell.Idx, s0.Len)
				if inRange.IsTrue() {
					continue
				}
				ts, fs := x.fork(st, inRange, "tracked cell in range")
				if fs != nil {
					// out of range in this state: the cell is meaningless, forget it and redo the append
					cp := *(fs.heap[s0.Arr].(*VAbsArr))
					cp.Cells = append(append([]AbsCell(nil), cp.Cells[:ci]...), cp.Cells[ci+1:]...)
					fs.heap[s0.Arr] = &cp
					if fs != st {
						x.push(fs)
					}
				}
				if ts == nil {
					if fs == st {
						// the current state itself lost the cell: restart the append on it
						x.appendBuiltin(st, fr, c)
					}
					return
				}
			}
		}
	}
	// rebuild the cell list (states may have been refined above)
	na.Cells = nil
	addCells(s0, IntLit(0), e0, c0)
	addCells(s1, s0.Len, e1, c1)
	x.notes["append on a slice of symbolic length: elements beyond the tracked cells become unconstrained"] = true
	if isCommandSlice(s0.Typ) {
		na.CmdKinds = map[int64]bool{}
		if s0.Arr >= 0 {
			if abs, ok := st.heap[s0.Arr].(*VAbsArr); ok {
				for k := range abs.CmdKinds {
					na.CmdKinds[k] = true
				}
			}
		}
		for _, ev := range e1 {
			if p, ok := x.force(st, ev).(VPtr); ok {
				if k, ok := x.commandKind(st, p); ok {
					na.CmdKinds[k] = true
				}
			}
		}
	}
	obj := x.alloc(st, na)
	nilT := TFalse
	if l1, ok := isIntLit(s1.Len); ok && l1 == 0 {
		nilT = s0.Nil
	}
	x.finish(st, fr, c, VSlice{Nil: nilT, Arr: obj, Len: na.Len, Typ: s0.Typ})
}

var purePackages = map[string]bool{"strings": true, "strconv": true, "path": true, "path/filepath": true, "unicode": true, "unicode/utf8": true, "net/url": true}

// pureFallback models a function of a side-effect free standard package whose parameters and result are
// scalars (string, integer, bool) as an uninterpreted function of its arguments: equal arguments give equal
// results, nothing else is known. Functions returning (value, error) may fail arbitrarily.
func (x *Exec) pureFallback(st *State, fr *Frame, c *callCtx) bool {
	fn := c.fn
	if fn == nil || fn.Pkg == nil || !purePackages[fn.Pkg.Pkg.Path()] || fn.Signature.Recv() != nil || fn.Signature.Variadic() {
		return false
	}
	sig := fn.Signature
	var sorts []Sort
	var args []Term
	for i := 0; i < sig.Params().Len(); i++ {
		s, ok := scalarSort(sig.Params().At(i).Type())
		if !ok || i >= len(c.args) {
			return false
		}
		sc, ok := x.force(st, c.args[i]).(VScalar)
		if !ok {
			return false
		}
		sorts = append(sorts, s)
		args = append(args, sc.T)
	}
	nres := sig.Results().Len()
	if nres < 1 || nres > 2 {
		return false
	}
	rs, ok := scalarSort(sig.Results().At(0).Type())
	if !ok {
		return false
	}
	withErr := false
	if nres == 2 {
		if types.TypeString(sig.Results().At(1).Type(), nil) != "error" {
			return false
		}
		withErr = true
	}
	name := "pure." + fn.Pkg.Pkg.Path() + "." + fn.Name()
	f := x.sym.Func(name, sorts, rs)
	var res Term
	if len(args) == 0 {
		res = Term{f, rs}
	} else {
		res = App(rs, f, args...)
	}
	if rs == SInt {
		if b := basicOf(sig.Results().At(0).Type()); b != nil {
			if lo, hi, ok := intRange(b); ok {
				st.assume(App(SBool, "and", App(SBool, "<=", Term{lo, SInt}, res), App(SBool, "<=", res, Term{hi, SInt})))
			}
		}
	}
	x.notes["external "+fn.Pkg.Pkg.Path()+"."+fn.Name()+": standard library function of scalars modelled as an uninterpreted function of its arguments (no semantics beyond determinism)"] = true
	if !withErr {
		x.finish(st, fr, c, VScalar{res})
		return true
	}
	fail := x.sym.Fresh(fn.Name()+".fails", SBool)
	x.finish(st, fr, c, VTuple{[]Value{VScalar{res}, x.freshErr(st, fn.Name()+".err", Not(fail))}})
	return true
}

// capturedRequires: a closure whose contract states preconditions on its captured variables ("requires
// [captured] e") is verified assuming them; they are proved where the closure is created, over the variables
// it captures at that point (a clause that also names a parameter of the closure is not about the creation
// site and is left to the call sites).
func (x *Exec) capturedRequires(st *State, fr *Frame, mc *ssa.MakeClosure, binds []Value) {
	fn := mc.Fn.(*ssa.Function)
	ct := x.prog.contracts.byKey[x.prog.funcKey(fn)]
	if ct == nil || len(st.frames) == 0 || x.contract == nil {
		return
	}
	cs := sigOfFunc(fn)
	for _, cl := range ct.Requires {
		captured := false
		for _, p := range cl.Props {
			if p == "captured" {
				captured = true
			}
		}
		if !captured {
			continue
		}
		config := false
		for _, p := range cl.Props {
			if p == "config" {
				config = true
			}
		}
		if config {
			// "[captured config]": the captured value comes from the operator's configuration file, which the
			// properties do not quantify over; stays an assumption, listed as such
			x.notes["ASSUMED: captured precondition of "+fn.Name()+" on operator configuration (not proved where the closure is created): "+cl.Text] = true
			continue
		}
		env := &SpecEnv{x: x, st: st, vars: map[string]TV{}}
		env.pkg = cs.pkg
		for k, fv := range fn.FreeVars {
			if k >= len(binds) {
				break
			}
			if pt, ok := fv.Type().Underlying().(*types.Pointer); ok {
				if p, ok := binds[k].(VPtr); ok && p.Loc != nil {
					env.vars[fv.Name()] = TV{env.loadLoc(p.Loc, pt.Elem()), pt.Elem()}
					continue
				}
			}
			env.vars[fv.Name()] = TV{binds[k], fv.Type()}
		}
		x.extendEnv(env, st, fr)
		t, err := env.EvalBool(cl.Text)
		if err != nil {
			if os.Getenv("GOVC_DEBUG_CAPTURED") != "" {
				fmt.Fprintln(os.Stderr, "captured requires of", fn.Name(), "not evaluated:", err)
			}
			continue
		}
		x.oblige(st, "requires", fmt.Sprintf("captured precondition of %s where the closure is created: %s", fn.Name(), cl.Text), t, mc.Pos(), ct.clauseProps(cl))
		if st.dead {
			return
		}
	}
}
