package main

// Symbolic executor over go/ssa: forward execution with path enumeration,
// loops cut at their headers, calls replaced by contracts / intrinsics /
// bounded inlining of small helpers. Every memory-safety condition, every
// util.Assert, every explicit panic and every contract clause becomes an
// Obligation (path condition => goal) that is discharged by the solvers.

import (
	"fmt"
	"go/ast"
	"go/constant"
	"go/token"
	"go/types"
	"os"
	"sort"
	"strings"

	"golang.org/x/tools/go/ssa"
)

type Obligation struct {
	Name   string
	Kind   string // nil-deref, bounds, assert, panic, ensures, requires, invariant, ...
	Func   string
	Pos    string
	Props  []string
	PC     []Term
	Goal   Term
	Trace  []string
	Extra  string // free text shown in reports
	Result *SolveResult
}

type Exec struct {
	prog      *Program
	sym       *SymCtx
	nextObj   int
	obls      []*Obligation
	oblSeen   map[string]bool
	unsup     []string
	unsupSeen map[string]bool
	fn        *ssa.Function
	contract  *Contract
	paths     int
	maxPaths  int
	returns   int // completed paths that reached a return of the top function
	depthMax  int
	covers    map[string]bool
	incr      *IncrSolver
	feasCache map[string]bool
	// per-run configuration
	panicProps []string // properties the implicit safety obligations are charged to
	noInline   map[string]bool
	work       []*State
	cur        *State
	hooks      *Hooks

	usedExt       map[string]bool
	usedContracts map[string]bool
	inSpecFailure bool
	iterObjBase   int               // first object id of the current loop iteration (iterfresh)
	urlOrigin     map[int]Term      // parsed *url.URL object -> the text it was parsed from
	sprintfFmt    map[string]string // result term of fmt.Sprintf -> its format literal
	iterBase      int               // recorded calls before the current loop iteration (for itercalls)
	inlined       map[string]bool
	forceContract map[string]bool
	notes         map[string]bool
	visited       map[*ssa.BasicBlock]bool // blocks of the unit's own function some path entered
	deepSite      bool
	exitLoops     []int        // loops being left (site loop <n> exit)
	curCallee     string       // full name of the callee a "site call" assertion is being evaluated at
	curSelect     *ssa.Select  // the select statement a "site select" assertion is being evaluated at
	symObjs       map[int]bool // objects standing for the pointees of symbolic (input or havocked) pointers
	frameCounter  int
	cronExprs     map[string]Term     // schedule id -> the expression it was parsed from
	dynTests      map[string][]string // opaque interface value id -> concrete types tested on it (mutually exclusive)
	structCodecs  map[string]structCodec
	callCounter   int
	loopCounter   int
	overflowProps []string
	sqlProps      []string
	globalObj     map[*ssa.Global]int
	configVal     *VPtr
	batchCounter  int
	recorded      []recordedCall
	txProps       []string
	assertProps   []string
}

// Hooks let the property drivers observe the execution.
type Hooks struct {
	OnReturn func(x *Exec, st *State, results []Value)
}

func NewExec(prog *Program, fn *ssa.Function) *Exec {
	x := &Exec{prog: prog, sym: NewSymCtx(), fn: fn, oblSeen: map[string]bool{}, unsupSeen: map[string]bool{},
		maxPaths: 6000, depthMax: 4, covers: map[string]bool{}, feasCache: map[string]bool{}, noInline: map[string]bool{},
		usedExt: map[string]bool{}, usedContracts: map[string]bool{}, inlined: map[string]bool{}, forceContract: map[string]bool{},
		notes: map[string]bool{}, structCodecs: map[string]structCodec{}, globalObj: map[*ssa.Global]int{}}
	if prog.spec != nil {
		x.sym.preset = prog.spec.lits
		// the literals named by the spec are always part of the distinctness fact
		var pl []string
		for s := range prog.spec.lits {
			pl = append(pl, s)
		}
		sort.Strings(pl)
		for _, s := range pl {
			x.sym.StrLit(s)
		}
		x.sym.external = map[string]bool{}
		for n := range prog.spec.sigs {
			x.sym.external[n] = true
		}
	}
	return x
}

func (x *Exec) unsupported(st *State, why string) {
	// a contract clause that cannot be evaluated against the current source (a local it names no longer
	// exists, a field changed type, ...) is a failed obligation, not an unexplored path: the clause was
	// established on the unchanged tree and cannot be established now
	if st != nil && strings.HasPrefix(why, "spec \"") && len(st.frames) > 0 && x.contract != nil && !x.inSpecFailure {
		x.inSpecFailure = true
		x.oblige(st, "contract", "contract clause can be evaluated against the current source: "+why, TFalse, token.NoPos, x.contract.allProps())
		x.inSpecFailure = false
		st.dead = true
		return
	}
	where := ""
	if st != nil && len(st.frames) > 0 {
		fr := st.top()
		where = fr.fn.Name()
		if fr.block != nil && fr.ip < len(fr.block.Instrs) {
			where += "@" + x.prog.pos(fr.block.Instrs[fr.ip].Pos())
		}
	}
	msg := why + " [" + where + "]"
	if !x.unsupSeen[msg] {
		x.unsupSeen[msg] = true
		x.unsup = append(x.unsup, msg)
	}
	if st != nil {
		st.dead = true
	}
}

func (x *Exec) oblige(st *State, kind, name string, goal Term, pos token.Pos, props []string) {
	if goal.IsTrue() {
		return
	}
	fr := st.top()
	p := x.prog.pos(pos)
	if pos == token.NoPos && fr.block != nil && fr.ip < len(fr.block.Instrs) {
		p = x.prog.pos(fr.block.Instrs[fr.ip].Pos())
	}
	key := kind + "|" + name + "|" + p + "|" + goal.S + "|" + termsKey(st.pc)
	if x.oblSeen[key] {
		return
	}
	x.oblSeen[key] = true
	if props == nil {
		props = x.panicProps
	}
	x.obls = append(x.obls, &Obligation{Name: name, Kind: kind, Func: fr.fn.String(), Pos: p, Props: props,
		PC: append([]Term(nil), st.pc...), Goal: goal, Trace: append([]string(nil), st.trace...)})
}

func termsKey(ts []Term) string {
	var b strings.Builder
	for _, t := range ts {
		b.WriteString(t.S)
		b.WriteByte(';')
	}
	return b.String()
}

// feasible decides whether pc ∧ extra may be satisfiable.
func (x *Exec) feasible(st *State, extra Term) bool {
	if extra.IsFalse() {
		return false
	}
	for _, t := range st.pc {
		if t.IsFalse() {
			return false
		}
	}
	if x.incr == nil {
		return true
	}
	asserts := make([]string, 0, len(st.pc)+1)
	for _, t := range st.pc {
		asserts = append(asserts, t.S)
	}
	if !extra.IsTrue() {
		asserts = append(asserts, extra.S)
	}
	key := strings.Join(asserts, ";")
	if v, ok := x.feasCache[key]; ok {
		return v
	}
	r := x.incr.Check(x.sym, asserts)
	x.feasCache[key] = r
	return r
}

// branch forks the state on cond. It returns the state for the true branch
// (possibly nil) and pushes the false branch on the work list.
func (x *Exec) fork(st *State, cond Term, label string) (tState, fState *State) {
	if cond.IsTrue() {
		return st, nil
	}
	if cond.IsFalse() {
		return nil, st
	}
	tOK := x.feasible(st, cond)
	fOK := x.feasible(st, Not(cond))
	switch {
	case tOK && fOK:
		if os.Getenv("GOVC_DEBUG_FORKS") != "" {
			fmt.Fprintln(os.Stderr, "fork:", label)
		}
		f := st.clone()
		f.assume(Not(cond))
		f.trace = append(f.trace, "!"+label)
		st.assume(cond)
		st.trace = append(st.trace, label)
		return st, f
	case tOK:
		st.assume(cond)
		return st, nil
	case fOK:
		st.assume(Not(cond))
		return nil, st
	}
	st.dead = true
	return nil, nil
}

// --------------------------------------------------------------------------

func (x *Exec) eval(st *State, fr *Frame, v ssa.Value) Value {
	switch vv := v.(type) {
	case *ssa.Const:
		return x.constant(st, vv)
	case *ssa.Global:
		return x.global(st, vv)
	case *ssa.Function:
		return VClosure{Fn: vv}
	case *ssa.Builtin:
		return VOpaque{Name: "builtin:" + vv.Name()}
	}
	if r, ok := fr.env[v]; ok {
		return r
	}
	x.unsupported(st, fmt.Sprintf("unbound ssa value %s (%T)", v.Name(), v))
	return nil
}

func (x *Exec) constant(st *State, c *ssa.Const) Value {
	if c.Value == nil {
		return x.zero(st, c.Type())
	}
	t := c.Type()
	if _, ok := t.Underlying().(*types.Basic); !ok {
		return x.zero(st, t)
	}
	switch c.Value.Kind() {
	case constant.Bool:
		return VScalar{BoolLit(constant.BoolVal(c.Value))}
	case constant.String:
		return VScalar{x.sym.StrLit(constant.StringVal(c.Value))}
	case constant.Int:
		if i, ok := constant.Int64Val(c.Value); ok {
			return VScalar{IntLit(i)}
		}
		return VScalar{Term{c.Value.ExactString(), SInt}}
	case constant.Float:
		f, _ := constant.Float64Val(c.Value)
		return VScalar{Term{fmt.Sprintf("%f", f), "Real"}}
	}
	return VOpaque{Typ: t, Name: "const"}
}

func (x *Exec) global(st *State, g *ssa.Global) Value {
	id, ok := x.globalObj[g]
	if !ok {
		x.nextObj++
		id = x.nextObj
		x.globalObj[g] = id
	}
	if _, ok := st.heap[id]; !ok {
		name := "global." + g.Pkg.Pkg.Path() + "." + g.Name()
		elem := g.Type().(*types.Pointer).Elem()
		var v Value = VLazy{Typ: elem, Name: name}
		if _, isIface := elem.Underlying().(*types.Interface); isIface {
			// package-level error values (sql.ErrNoRows, ...) are non-nil with a stable identity
			v = VIface{Nil: TFalse, Id: x.sym.Named(name+".id", SErr), Typ: elem}
		}
		st.heap[id] = v
	}
	return VPtr{Nil: TFalse, Loc: &Loc{Obj: id}, Typ: g.Type()}
}

// derefCheck emits the nil-dereference obligation for p and assumes non-nil.
func (x *Exec) derefCheck(st *State, p VPtr, what string, pos token.Pos) bool {
	if p.Loc == nil || p.Nil.IsTrue() {
		x.oblige(st, "nil-deref", what, TFalse, pos, nil)
		st.dead = true
		return false
	}
	if !p.Nil.IsFalse() {
		if strings.Contains(p.Nil.S, "havoc:") {
			// an element read back from a slice whose cells were forgotten at a loop: its
			// nil-ness is not tracked by this engine; the dereference is NOT checked
			x.notes["NOT CHECKED: nil-ness of an element read back from a slice filled in a loop, dereferenced at "+x.prog.pos(pos)] = true
			st.assume(Not(p.Nil))
			return true
		}
		x.oblige(st, "nil-deref", what, Not(p.Nil), pos, nil)
		st.assume(Not(p.Nil))
	}
	return true
}

func (x *Exec) scalar(st *State, v Value) Term {
	switch vv := v.(type) {
	case VScalar:
		return vv.T
	case VLazy:
		return x.scalar(st, x.symbolic(st, vv.Typ, vv.Name))
	}
	x.unsupported(st, fmt.Sprintf("expected scalar, got %T", v))
	return Term{"0", SInt}
}

func (x *Exec) force(st *State, v Value) Value {
	if lz, ok := v.(VLazy); ok {
		return x.symbolic(st, lz.Typ, lz.Name)
	}
	return v
}

// --------------------------------------------------------------------------
// main loop

func (x *Exec) run(init *State) {
	x.work = []*State{init}
	for len(x.work) > 0 {
		st := x.work[len(x.work)-1]
		x.work = x.work[:len(x.work)-1]
		x.paths++
		if os.Getenv("GOVC_DEBUG_PROGRESS") != "" && x.paths%20 == 0 {
			fmt.Fprintf(os.Stderr, "progress: %d states popped, %d queued, last trace: %s\n", x.paths, len(x.work), strings.Join(st.trace, " "))
		}
		if x.paths > x.maxPaths {
			x.unsupported(nil, fmt.Sprintf("path budget of %d exceeded", x.maxPaths))
			return
		}
		steps := 0
		x.cur = st
		for !st.dead && len(st.frames) > 0 {
			x.step(st)
			steps++
			if steps > 200000 {
				x.unsupported(st, "step budget exceeded")
			}
		}
	}
}

func (x *Exec) push(st *State) {
	if st != nil && !st.dead {
		x.work = append(x.work, st)
	}
}

func (x *Exec) enterBlock(st *State, fr *Frame, to *ssa.BasicBlock) {
	// "site loop <n> exit assert e": e holds whenever loop n is left from inside its body (break, goto; not
	// through the header condition, not into a block that only panics). A return inside the loop is a
	// "site loop <n> return".
	if x.contract != nil && x.contract.Directives["site"] != nil && len(st.frames) > 0 && fr == st.frames[0] && fr.block != nil && !st.dead {
		var exited []int
		for _, l := range x.loopsOf(fr.fn) {
			if l.body[fr.block] && fr.block != l.header && !l.body[to] && !isPanicBlock(to) {
				exited = append(exited, l.ord)
			}
		}
		if len(exited) > 0 {
			x.exitLoops = exited
			x.siteAsserts(st, fr, "exit", "", nil)
			x.exitLoops = nil
			if st.dead {
				return
			}
		}
	}
	fr.prev = fr.block
	fr.block = to
	fr.ip = 0
	fr.headerDone = false
}

func (x *Exec) step(st *State) {
	fr := st.top()
	if len(st.frames) == 1 && fr.ip == 0 {
		if x.visited == nil {
			x.visited = map[*ssa.BasicBlock]bool{}
		}
		x.visited[fr.block] = true
	}
	if fr.ip >= len(fr.block.Instrs) {
		x.unsupported(st, "fell off block")
		return
	}
	if !fr.headerDone && fr.ip == firstNonPhi(fr.block) {
		if x.isLoopHeader(fr.fn, fr.block) {
			// headerDone stays false while the header is processed: a state cloned by a fork during the
			// evaluation of an invariant re-runs the header processing instead of slipping into the body
			x.atLoopHeader(st, fr, fr.block)
			if st.dead {
				return
			}
		}
		fr.headerDone = true
	}
	instr := fr.block.Instrs[fr.ip]
	switch in := instr.(type) {
	case *ssa.DebugRef:
		if id, ok := in.Expr.(*ast.Ident); ok && id.Name != "_" {
			if fr.names == nil {
				fr.names = map[string]nameRef{}
			}
			fr.names[id.Name] = nameRef{V: in.X, IsAddr: in.IsAddr}
		}
		fr.ip++
	case *ssa.Phi:
		idx := -1
		for i, p := range fr.block.Preds {
			if p == fr.prev {
				idx = i
				break
			}
		}
		if idx < 0 {
			x.unsupported(st, "phi without predecessor")
			return
		}
		// phis of a block are evaluated in parallel
		vals := map[*ssa.Phi]Value{}
		j := fr.ip
		for ; j < len(fr.block.Instrs); j++ {
			ph, ok := fr.block.Instrs[j].(*ssa.Phi)
			if !ok {
				break
			}
			vals[ph] = x.eval(st, fr, ph.Edges[idx])
		}
		for ph, v := range vals {
			fr.env[ph] = v
		}
		fr.ip = j
	case *ssa.Jump:
		x.enterBlock(st, fr, fr.block.Succs[0])
	case *ssa.If:
		c := x.scalar(st, x.eval(st, fr, in.Cond))
		if st.dead {
			return
		}
		ts, fs := x.fork(st, c, x.prog.pos(in.Cond.Pos()))
		tb, fb := fr.block.Succs[0], fr.block.Succs[1]
		if fs != nil && fs != st {
			x.enterBlock(fs, fs.top(), fb)
			x.push(fs)
		} else if fs == st {
			x.enterBlock(st, fr, fb)
		}
		if ts != nil {
			x.enterBlock(ts, ts.top(), tb)
		}
	case *ssa.Return:
		res := make([]Value, len(in.Results))
		for i, r := range in.Results {
			res[i] = x.eval(st, fr, r)
		}
		// "site return assert e": e holds at every return of the function under verification, with its
		// locals in scope (result0.. are the values being returned)
		if len(st.frames) > 0 && fr == st.frames[0] {
			bind := map[string]TV{}
			sig := fr.fn.Signature.Results()
			for i := range res {
				if i < sig.Len() {
					bind[fmt.Sprintf("result%d", i)] = TV{res[i], sig.At(i).Type()}
				}
			}
			x.siteAsserts(st, fr, "return", "", bind)
			if st.dead {
				return
			}
		}
		x.doReturn(st, fr, res)
	case *ssa.RunDefers:
		if len(fr.defers) == 0 {
			fr.ip++
			return
		}
		d := fr.defers[len(fr.defers)-1]
		fr.defers = fr.defers[:len(fr.defers)-1]
		x.callValue(st, fr, d.call, d.fn, d.args, nil, true)
	case *ssa.Panic:
		x.oblige(st, "panic", "explicit panic reachable", TFalse, in.Pos(), nil)
		st.dead = true
	case *ssa.Store:
		addr := x.eval(st, fr, in.Addr)
		val := x.eval(st, fr, in.Val)
		if st.dead {
			return
		}
		p, ok := addr.(VPtr)
		if !ok {
			x.unsupported(st, fmt.Sprintf("store through %T", addr))
			return
		}
		if !x.derefCheck(st, p, "store through nil pointer", in.Pos()) {
			return
		}
		// "site store <Field> assert e": e holds whenever the function under contract assigns a struct field of
		// that name; old is the field's value before the assignment, val the value assigned
		if fa, ok := in.Addr.(*ssa.FieldAddr); ok && x.contract != nil && x.contract.Directives["site"] != nil && len(st.frames) > 0 && fr == st.frames[0] {
			if stt, ok := fa.X.Type().Underlying().(*types.Pointer).Elem().Underlying().(*types.Struct); ok {
				ft := stt.Field(fa.Field).Type()
				x.siteAsserts(st, fr, "store", stt.Field(fa.Field).Name(), map[string]TV{"old": {x.load(st, p.Loc), ft}, "val": {val, ft}})
				if st.dead {
					return
				}
			}
		}
		x.store(st, p.Loc, val)
		x.onElementStored(st, p.Loc, val)
		fr.ip++
	case *ssa.MapUpdate:
		x.mapUpdate(st, fr, in)
		fr.ip++
	case *ssa.Defer:
		args := make([]Value, len(in.Call.Args))
		for i, a := range in.Call.Args {
			args[i] = x.eval(st, fr, a)
		}
		var fv Value
		if !in.Call.IsInvoke() {
			fv = x.eval(st, fr, in.Call.Value)
		} else {
			fv = x.eval(st, fr, in.Call.Value)
		}
		fr.defers = append(fr.defers, deferred{call: &in.Call, args: args, fn: fv})
		fr.ip++
	case *ssa.Go:
		// the goroutine runs concurrently: its body is outside the sequential contract of this
		// function. Arguments are evaluated here; the body is not executed (listed as an assumption).
		for _, a := range in.Call.Args {
			x.eval(st, fr, a)
		}
		name := "function value"
		if f := in.Call.StaticCallee(); f != nil {
			name = x.prog.funcKey(f)
		} else if mc, ok := in.Call.Value.(*ssa.MakeClosure); ok {
			name = x.prog.funcKey(mc.Fn.(*ssa.Function))
		}
		x.notes["ASSUMED: goroutine started by a go statement is not part of this function's contract (body not verified here): "+name] = true
		fr.ip++
	case *ssa.Send:
		x.sendInstr(st, fr, in)
	case ssa.Value:
		x.valueInstr(st, fr, in)
	default:
		x.unsupported(st, fmt.Sprintf("instruction %T", instr))
	}
}

func (x *Exec) doReturn(st *State, fr *Frame, res []Value) {
	if len(fr.defers) > 0 {
		// defers are run by the preceding RunDefers instruction
	}
	if len(st.frames) == 1 {
		x.returns++
		if fr.onReturn != nil {
			fr.onReturn(st, fr, res)
		}
		st.frames = nil
		return
	}
	st.frames = st.frames[:len(st.frames)-1]
	caller := st.top()
	if fr.onReturn != nil {
		fr.onReturn(st, fr, res)
		if st.dead {
			return
		}
	}
	if fr.wrapAwait {
		caller.env[fr.retInstr] = VAwait{Done: true, Results: res}
	} else if fr.retInstr != nil {
		if len(res) == 1 {
			caller.env[fr.retInstr] = res[0]
		} else {
			caller.env[fr.retInstr] = VTuple{res}
		}
	}
	if _, isRunDefers := caller.block.Instrs[caller.ip].(*ssa.RunDefers); !isRunDefers {
		caller.ip++
	}
}

// --------------------------------------------------------------------------
// value-producing instructions

func (x *Exec) valueInstr(st *State, fr *Frame, in ssa.Value) {
	set := func(v Value) {
		if !st.dead {
			fr.env[in] = v
			fr.ip++
		}
	}
	switch i := in.(type) {
	case *ssa.Alloc:
		elem := i.Type().(*types.Pointer).Elem()
		obj := x.alloc(st, x.zero(st, elem))
		set(VPtr{Nil: TFalse, Loc: &Loc{Obj: obj}, Typ: i.Type()})
	case *ssa.FieldAddr:
		base := x.force(st, x.eval(st, fr, i.X))
		if st.dead {
			return
		}
		p, ok := base.(VPtr)
		if !ok {
			x.unsupported(st, fmt.Sprintf("fieldaddr on %T", base))
			return
		}
		fname := i.X.Type().Underlying().(*types.Pointer).Elem().Underlying().(*types.Struct).Field(i.Field).Name()
		if !x.derefCheck(st, p, "nil pointer dereference (."+fname+")", i.Pos()) {
			return
		}
		set(VPtr{Nil: TFalse, Loc: p.Loc.Sub(i.Field), Typ: i.Type()})
	case *ssa.Field:
		base := x.force(st, x.eval(st, fr, i.X))
		if st.dead {
			return
		}
		sv, ok := base.(VStruct)
		if !ok {
			x.unsupported(st, fmt.Sprintf("field on %T", base))
			return
		}
		set(x.force(st, sv.F[i.Field]))
	case *ssa.UnOp:
		x.unop(st, fr, i, set)
	case *ssa.BinOp:
		a := x.eval(st, fr, i.X)
		b := x.eval(st, fr, i.Y)
		if st.dead {
			return
		}
		set(x.binop(st, i.Op, a, b, i.X.Type(), i.Pos()))
	case *ssa.Call:
		x.call(st, fr, i)
	case *ssa.Extract:
		t := x.eval(st, fr, i.Tuple)
		if st.dead {
			return
		}
		tv, ok := t.(VTuple)
		if !ok {
			x.unsupported(st, fmt.Sprintf("extract from %T", t))
			return
		}
		set(tv.E[i.Index])
	case *ssa.MakeInterface:
		v := x.eval(st, fr, i.X)
		set(VIface{Nil: TFalse, Dyn: i.X.Type(), Val: v, Typ: i.Type()})
	case *ssa.ChangeInterface:
		set(x.eval(st, fr, i.X))
	case *ssa.ChangeType:
		set(x.eval(st, fr, i.X))
	case *ssa.Convert:
		set(x.convert(st, x.eval(st, fr, i.X), i.X.Type(), i.Type()))
	case *ssa.MultiConvert:
		set(x.convert(st, x.eval(st, fr, i.X), i.X.Type(), i.Type()))
	case *ssa.MakeClosure:
		binds := make([]Value, len(i.Bindings))
		for k, b := range i.Bindings {
			binds[k] = x.eval(st, fr, b)
		}
		set(VClosure{Fn: i.Fn.(*ssa.Function), Binds: binds})
		x.capturedRequires(st, fr, i, binds)
	case *ssa.MakeMap:
		if isStringMap(i.Type()) {
			obj := x.alloc(st, MapSS{A: Term{"smap.empty", SMapSS}})
			set(VMap{Nil: TFalse, Obj: obj, Typ: i.Type()})
		} else {
			obj := x.alloc(st, &MapGen{Name: "map", Typ: i.Type().Underlying().(*types.Map), LenT: IntLit(0)})
			set(VMap{Nil: TFalse, Obj: obj, Typ: i.Type()})
		}
	case *ssa.MakeSlice:
		x.makeSlice(st, fr, i, set)
	case *ssa.MakeChan:
		obj := x.alloc(st, &ChanObj{Typ: i.Type(), Cap: x.scalar(st, x.eval(st, fr, i.Size))})
		set(VChan{Nil: TFalse, Obj: obj, Typ: i.Type(), Id: x.sym.Fresh("chan.id", SErr)})
	case *ssa.Slice:
		x.sliceInstr(st, fr, i, set)
	case *ssa.IndexAddr:
		x.indexAddr(st, fr, i, set)
	case *ssa.Index:
		x.indexInstr(st, fr, i, set)
	case *ssa.Lookup:
		x.lookup(st, fr, i, set)
	case *ssa.TypeAssert:
		x.typeAssert(st, fr, i, set)
	case *ssa.Range:
		x.rangeInstr(st, fr, i, set)
	case *ssa.Next:
		x.nextInstr(st, fr, i, set)
	case *ssa.Select:
		x.selectInstr(st, fr, i, set)
	default:
		x.unsupported(st, fmt.Sprintf("value instruction %T", in))
	}
}

func (x *Exec) unop(st *State, fr *Frame, i *ssa.UnOp, set func(Value)) {
	v := x.force(st, x.eval(st, fr, i.X))
	if st.dead {
		return
	}
	switch i.Op {
	case token.MUL:
		p, ok := v.(VPtr)
		if !ok {
			x.unsupported(st, fmt.Sprintf("deref of %T", v))
			return
		}
		if !x.derefCheck(st, p, "nil pointer dereference", i.Pos()) {
			return
		}
		set(x.load(st, p.Loc))
	case token.NOT:
		set(VScalar{Not(x.scalar(st, v))})
	case token.SUB:
		set(VScalar{Wrap(Sub(IntLit(0), x.scalar(st, v)), 64, true)})
	case token.ARROW:
		x.recvInstr(st, fr, i, v, set)
	case token.XOR:
		set(VScalar{App(SInt, "bnot", x.scalar(st, v))})
	default:
		x.unsupported(st, "unop "+i.Op.String())
	}
}

func basicOf(t types.Type) *types.Basic {
	b, _ := t.Underlying().(*types.Basic)
	return b
}

func (x *Exec) wrapFor(t types.Type, v Term) Term {
	b := basicOf(t)
	if b == nil {
		return v
	}
	switch b.Kind() {
	case types.Int, types.Int64:
		return Wrap(v, 64, true)
	case types.Uint, types.Uint64, types.Uintptr:
		return Wrap(v, 64, false)
	case types.Int32:
		return Wrap(v, 32, true)
	}
	if lo, hi, ok := intRange(b); ok {
		if _, isLit := isIntLit(v); isLit {
			return v
		}
		return App(SInt, "wrapto", v, Term{lo, SInt}, Term{hi, SInt})
	}
	return v
}

func (x *Exec) binop(st *State, op token.Token, a, b Value, opndType types.Type, pos token.Pos) Value {
	a = x.force(st, a)
	b = x.force(st, b)
	switch av := a.(type) {
	case VScalar:
		bv, ok := b.(VScalar)
		if !ok {
			x.unsupported(st, fmt.Sprintf("binop scalar with %T", b))
			return nil
		}
		return VScalar{x.binopScalar(st, op, av.T, bv.T, opndType, pos)}
	case VPtr:
		bv, ok := b.(VPtr)
		if !ok {
			x.unsupported(st, "pointer compared with non pointer")
			return nil
		}
		eq := x.ptrEq(av, bv)
		if op == token.EQL {
			return VScalar{eq}
		} else if op == token.NEQ {
			return VScalar{Not(eq)}
		}
	case VIface:
		bv, ok := b.(VIface)
		if !ok {
			x.unsupported(st, "interface compared with non interface")
			return nil
		}
		eq := x.ifaceEq(st, av, bv)
		if op == token.EQL {
			return VScalar{eq}
		} else if op == token.NEQ {
			return VScalar{Not(eq)}
		}
	case VSlice:
		// only comparison with nil is legal
		if op == token.EQL {
			return VScalar{av.Nil}
		} else if op == token.NEQ {
			return VScalar{Not(av.Nil)}
		}
	case VBytes:
		if op == token.EQL {
			return VScalar{av.Nil}
		} else if op == token.NEQ {
			return VScalar{Not(av.Nil)}
		}
	case VMap:
		if op == token.EQL {
			return VScalar{av.Nil}
		} else if op == token.NEQ {
			return VScalar{Not(av.Nil)}
		}
	case VChan:
		eq := av.Nil
		if bv, ok := b.(VChan); ok {
			eq = chanEq(av, bv)
		}
		if op == token.EQL {
			return VScalar{eq}
		} else if op == token.NEQ {
			return VScalar{Not(eq)}
		}
	case VClosure:
		if op == token.EQL {
			return VScalar{TFalse}
		} else if op == token.NEQ {
			return VScalar{TTrue}
		}
	case VOpaque:
		if strings.HasPrefix(av.Name, "nil") {
			if op == token.EQL {
				return VScalar{TTrue}
			} else if op == token.NEQ {
				return VScalar{TFalse}
			}
		}
		t := x.sym.Fresh("opaque.cmp", SBool)
		return VScalar{t}
	case VStruct:
		bv, ok := b.(VStruct)
		if ok {
			eq := x.structEq(st, av, bv)
			if op == token.EQL {
				return VScalar{eq}
			} else if op == token.NEQ {
				return VScalar{Not(eq)}
			}
		}
	}
	x.unsupported(st, fmt.Sprintf("binop %s on %T", op, a))
	return nil
}

func (x *Exec) structEq(st *State, a, b VStruct) Term {
	var cs []Term
	for i := range a.F {
		r := x.binop(st, token.EQL, a.F[i], b.F[i], nil, token.NoPos)
		if r == nil {
			return TFalse
		}
		cs = append(cs, r.(VScalar).T)
	}
	return And(cs...)
}

func sameLoc(a, b *Loc) bool {
	if a == nil || b == nil {
		return false
	}
	if a.Obj != b.Obj || len(a.Path) != len(b.Path) {
		return false
	}
	for i := range a.Path {
		if a.Path[i] != b.Path[i] {
			return false
		}
	}
	return true
}

func (x *Exec) ptrEq(a, b VPtr) Term {
	bothNil := And(a.Nil, b.Nil)
	if sameLoc(a.Loc, b.Loc) {
		return Or(bothNil, And(Not(a.Nil), Not(b.Nil)))
	}
	return bothNil
}

func (x *Exec) ifaceEq(st *State, a, b VIface) Term {
	bothNil := And(a.Nil, b.Nil)
	if a.Nil.IsTrue() || b.Nil.IsTrue() {
		return bothNil
	}
	// dynamic pointer values
	if a.Dyn != nil && b.Dyn != nil {
		if !types.Identical(a.Dyn, b.Dyn) {
			return bothNil
		}
		if pa, ok := a.Val.(VPtr); ok {
			if pb, ok := b.Val.(VPtr); ok {
				return Or(bothNil, And(Not(a.Nil), Not(b.Nil), x.ptrEq(pa, pb)))
			}
		}
		if sa, ok := a.Val.(VScalar); ok {
			if sb, ok := b.Val.(VScalar); ok {
				return Or(bothNil, And(Not(a.Nil), Not(b.Nil), Eq(sa.T, sb.T)))
			}
		}
	}
	if a.Id.S != "" && b.Id.S != "" {
		return Or(bothNil, And(Not(a.Nil), Not(b.Nil), Eq(a.Id, b.Id)))
	}
	if (a.Dyn != nil) != (b.Dyn != nil) {
		// one side is a freshly built value, the other an opaque one: equality unknown
		t := x.sym.Fresh("iface.eq", SBool)
		return Or(bothNil, And(Not(a.Nil), Not(b.Nil), t))
	}
	t := x.sym.Fresh("iface.eq", SBool)
	return Or(bothNil, And(Not(a.Nil), Not(b.Nil), t))
}

func (x *Exec) binopScalar(st *State, op token.Token, a, b Term, t types.Type, pos token.Pos) Term {
	switch a.Sort {
	case SBool:
		switch op {
		case token.EQL:
			return Eq(a, b)
		case token.NEQ:
			return Not(Eq(a, b))
		case token.AND, token.LAND:
			return And(a, b)
		case token.OR, token.LOR:
			return Or(a, b)
		}
	case SStr:
		switch op {
		case token.EQL:
			return Eq(a, b)
		case token.NEQ:
			return Not(Eq(a, b))
		case token.ADD:
			return x.strCat(a, b)
		case token.LSS:
			return App(SBool, "str.lt", a, b)
		case token.GTR:
			return App(SBool, "str.lt", b, a)
		case token.LEQ:
			return Not(App(SBool, "str.lt", b, a))
		case token.GEQ:
			return Not(App(SBool, "str.lt", a, b))
		}
	case SInt:
		switch op {
		case token.EQL:
			return Eq(a, b)
		case token.NEQ:
			return Not(Eq(a, b))
		case token.LSS:
			return Lt(a, b)
		case token.LEQ:
			return Le(a, b)
		case token.GTR:
			return Gt(a, b)
		case token.GEQ:
			return Ge(a, b)
		case token.ADD:
			r := Add(a, b)
			x.overflowNote(st, r, t, pos, "+")
			return x.wrapFor(t, r)
		case token.SUB:
			r := Sub(a, b)
			x.overflowNote(st, r, t, pos, "-")
			return x.wrapFor(t, r)
		case token.MUL:
			if ca, ok := isIntLit(a); ok {
				if cb, ok := isIntLit(b); ok {
					return IntLit(ca * cb)
				}
			}
			return x.wrapFor(t, App(SInt, "*", a, b))
		case token.QUO:
			x.oblige(st, "div-zero", "division by zero", Not(Eq(b, IntLit(0))), pos, nil)
			return App(SInt, "goquo", a, b)
		case token.REM:
			x.oblige(st, "div-zero", "division by zero", Not(Eq(b, IntLit(0))), pos, nil)
			return App(SInt, "gorem", a, b)
		case token.AND:
			return bitop("band", a, b)
		case token.OR:
			return bitop("bor", a, b)
		case token.XOR:
			return App(SInt, "bxor", a, b)
		case token.AND_NOT:
			return App(SInt, "bandnot", a, b)
		case token.SHL:
			if k, ok := isIntLit(b); ok && k >= 0 && k < 62 {
				if c, ok := isIntLit(a); ok {
					return IntLit(c << uint(k))
				}
				return x.wrapFor(t, App(SInt, "*", a, IntLit(1<<uint(k))))
			}
			return App(SInt, "bshl", a, b)
		case token.SHR:
			if k, ok := isIntLit(b); ok && k >= 0 && k < 62 {
				return App(SInt, "div", a, IntLit(1<<uint(k)))
			}
			return App(SInt, "bshr", a, b)
		}
	case "Real":
		ops := map[token.Token]string{token.ADD: "+", token.SUB: "-", token.MUL: "*", token.QUO: "/"}
		if o, ok := ops[op]; ok {
			return App("Real", o, a, b)
		}
		cm := map[token.Token]string{token.LSS: "<", token.LEQ: "<=", token.GTR: ">", token.GEQ: ">="}
		if o, ok := cm[op]; ok {
			return App(SBool, o, a, b)
		}
		if op == token.EQL {
			return Eq(a, b)
		}
		if op == token.NEQ {
			return Not(Eq(a, b))
		}
	}
	x.unsupported(st, fmt.Sprintf("scalar binop %s on %s", op, a.Sort))
	return Term{"0", SInt}
}

func bitop(name string, a, b Term) Term {
	ca, ok1 := isIntLit(a)
	cb, ok2 := isIntLit(b)
	if ok1 && ok2 {
		if name == "band" {
			return IntLit(ca & cb)
		}
		return IntLit(ca | cb)
	}
	return App(SInt, name, a, b)
}

// overflowNote records that a machine addition was performed; the property
// drivers turn the notes into no-overflow obligations where the mathematical
// value is what the contract needs.
func (x *Exec) overflowNote(st *State, r Term, t types.Type, pos token.Pos, op string) {
	if x.hooks == nil || t == nil {
		return
	}
	if _, lit := isIntLit(r); lit {
		return
	}
	b := basicOf(t)
	if b == nil {
		return
	}
	if lo, hi, ok := intRange(b); ok && x.overflowProps != nil {
		goal := App(SBool, "and", App(SBool, "<=", Term{lo, SInt}, r), App(SBool, "<=", r, Term{hi, SInt}))
		name := "machine arithmetic " + op + " does not wrap"
		if src := x.prog.srcExprAt(pos); src != "" {
			name = "machine arithmetic " + op + " does not wrap: " + src
		}
		x.oblige(st, "overflow", name, goal, pos, x.overflowProps)
		// the rest of the path is verified for the non-wrapping case; the wrapping case is this obligation
		st.assume(goal)
	}
}

func (x *Exec) strCat(a, b Term) Term {
	if a.S == x.sym.StrLit("").S {
		return b
	}
	if b.S == x.sym.StrLit("").S {
		return a
	}
	return App(SStr, "str.cat", a, b)
}

func (x *Exec) convert(st *State, v Value, from, to types.Type) Value {
	v = x.force(st, v)
	if st.dead {
		return nil
	}
	fb, tb := basicOf(from), basicOf(to)
	switch {
	case fb != nil && tb != nil && fb.Info()&types.IsInteger != 0 && tb.Info()&types.IsInteger != 0:
		t := x.scalar(st, v)
		flo, fhi, _ := intRange(fb)
		tlo, thi, _ := intRange(tb)
		if flo == tlo && fhi == thi {
			return VScalar{t}
		}
		// widening conversions keep the value
		if widens(fb.Kind(), tb.Kind()) {
			return VScalar{t}
		}
		return VScalar{x.wrapFor(to, t)}
	case fb != nil && fb.Info()&types.IsString != 0 && isByteSlice(to):
		return VBytes{Nil: TFalse, B: App(SBytes, "bytes.ofstr", x.scalar(st, v))}
	case isByteSlice(from) && tb != nil && tb.Info()&types.IsString != 0:
		bv, ok := v.(VBytes)
		if !ok {
			x.unsupported(st, "string([]byte) of non-bytes")
			return nil
		}
		return VScalar{App(SStr, "str.ofbytes", bv.B)}
	case fb != nil && tb != nil && fb.Info()&types.IsString != 0 && tb.Info()&types.IsString != 0:
		return v
	case fb != nil && tb != nil && fb.Info()&types.IsInteger != 0 && tb.Info()&types.IsFloat != 0:
		return VScalar{App("Real", "to_real", x.scalar(st, v))}
	case fb != nil && tb != nil && fb.Info()&types.IsFloat != 0 && tb.Info()&types.IsFloat != 0:
		return v
	case fb != nil && tb != nil && fb.Info()&types.IsInteger != 0 && tb.Info()&types.IsString != 0:
		return VScalar{App(SStr, "str.ofrune", x.scalar(st, v))}
	case fb != nil && tb != nil && fb.Info()&types.IsFloat != 0 && tb.Info()&types.IsInteger != 0:
		return VScalar{x.sym.Fresh("float2int", SInt)}
	}
	if types.Identical(from.Underlying(), to.Underlying()) {
		return v
	}
	if _, ok := to.Underlying().(*types.Pointer); ok {
		return v
	}
	x.unsupported(st, fmt.Sprintf("convert %s -> %s", from, to))
	return nil
}

func widens(from, to types.BasicKind) bool {
	rank := map[types.BasicKind]int{types.Int8: 1, types.Int16: 2, types.Int32: 3, types.Int: 4, types.Int64: 4}
	urank := map[types.BasicKind]int{types.Uint8: 1, types.Uint16: 2, types.Uint32: 3, types.Uint: 4, types.Uint64: 4, types.Uintptr: 4}
	if a, ok := rank[from]; ok {
		if b, ok := rank[to]; ok {
			return a <= b
		}
	}
	if a, ok := urank[from]; ok {
		if b, ok := urank[to]; ok {
			return a <= b
		}
		if b, ok := rank[to]; ok {
			return a < b
		}
	}
	return false
}

// --------------------------------------------------------------------------
// reporting helpers

func (x *Exec) sortedObls() []*Obligation {
	o := append([]*Obligation(nil), x.obls...)
	sort.SliceStable(o, func(i, j int) bool { return o[i].Pos < o[j].Pos })
	return o
}

// chanEq: two channel values denote the same channel.
func chanEq(av, bv VChan) Term {
	switch {
	case av.Obj >= 0 && av.Obj == bv.Obj:
		return Or(And(av.Nil, bv.Nil), And(Not(av.Nil), Not(bv.Nil)))
	case av.Id.S != "" && bv.Id.S != "":
		return Or(And(av.Nil, bv.Nil), And(Not(av.Nil), Not(bv.Nil), Eq(av.Id, bv.Id)))
	}
	return And(av.Nil, bv.Nil)
}
