package main

// Replay of counterexamples against the real code (go test -overlay).
//
// The engine's models are assignments to symbolic inputs and database rows; turning an arbitrary
// model into a Go test is not attempted. Instead /verif/replaysrc holds hand-written, in-package
// tests, one per counterexample class the contracts have produced so far (the "witness" of the class:
// "the decoded pointer is nil" is the input null, "the guarded insert hits nothing" is the scripted
// interleaving, ...). replaysrc/INDEX maps a failed obligation (function, kind, text) to such a test.
// When a failed obligation has an entry, the test is run against /repo's working tree; if it prints
// VERIF-REPRODUCED the violation is reported with that failing input, otherwise (or when there is no
// entry) the VIOLATION line ends with no-failing-input-found and the model is attached.

import (
	"bufio"
	"fmt"
	"os"
	"os/exec"
	"path/filepath"
	"strings"
	"sync"
)

type replayResult struct {
	Reproduced bool
	Text       string
}

type replayEntry struct{ fn, kind, name, dir, test string }

var replayMu sync.Mutex

func loadReplayIndex(verifDir string) []replayEntry {
	f, err := os.Open(filepath.Join(verifDir, "replaysrc", "INDEX"))
	if err != nil {
		return nil
	}
	defer f.Close()
	var out []replayEntry
	sc := bufio.NewScanner(f)
	for sc.Scan() {
		line := strings.TrimSpace(sc.Text())
		if line == "" || strings.HasPrefix(line, "#") {
			continue
		}
		p := strings.Split(line, "|")
		if len(p) != 5 {
			continue
		}
		out = append(out, replayEntry{strings.TrimSpace(p[0]), strings.TrimSpace(p[1]), strings.TrimSpace(p[2]), strings.TrimSpace(p[3]), strings.TrimSpace(p[4])})
	}
	return out
}

// replayRepo is the tree the replay tests run against (the -repo argument of the check).
var replayRepo = "/repo"

func tryReplay(prog *Program, prop, fn, name, kind, model, verifDir string) replayResult {
	for _, e := range loadReplayIndex(verifDir) {
		if !strings.Contains(fn, e.fn) || (e.kind != "*" && e.kind != kind) || !strings.Contains(name, e.name) {
			continue
		}
		replayMu.Lock()
		cmd := exec.Command(filepath.Join(verifDir, "tools", "replay.sh"), e.dir, "^"+e.test+"$")
		cmd.Env = append(os.Environ(), "VERIF_REPO="+replayRepo)
		out, _ := cmd.CombinedOutput()
		replayMu.Unlock()
		text := string(out)
		if len(text) > 4000 {
			text = text[:4000] + "\n...(truncated)"
		}
		hdr := "replay test " + e.test + " (replaysrc/" + e.dir + ", injected with go test -overlay into the real package):\n"
		if strings.Contains(text, "VERIF-REPRODUCED") {
			return replayResult{Reproduced: true, Text: hdr + text}
		}
		return replayResult{Text: "the replay test for this counterexample class did not reproduce on the current tree:\n" + hdr + text}
	}
	return replayResult{Text: "no replay test for this obligation class; the model is attached"}
}

type replayRun struct {
	fixed      bool
	reproduced bool
	test       string
	entry      string
	output     string
	line       string
}

// replayRegression runs the replay tests named by the known-findings file for one property.
func replayRegression(verifDir, prop string) []replayRun {
	data, err := os.ReadFile(filepath.Join(verifDir, "known_findings.txt"))
	if err != nil {
		return nil
	}
	var out []replayRun
	seen := map[string]bool{}
	for _, line := range strings.Split(string(data), "\n") {
		line = strings.TrimSpace(line)
		fixed := strings.HasPrefix(line, "fixed:")
		if !fixed && !strings.HasPrefix(line, "finding:") {
			continue
		}
		if !strings.Contains(line, "property="+prop+" ") {
			continue
		}
		for _, f := range strings.Fields(line) {
			f = strings.TrimPrefix(f, "replay=")
			if !strings.HasPrefix(f, "replaysrc/") || !strings.Contains(f, ":Test") {
				continue
			}
			parts := strings.SplitN(strings.TrimPrefix(f, "replaysrc/"), "/", 2)
			if len(parts) != 2 {
				continue
			}
			dir := parts[0]
			test := parts[1][strings.Index(parts[1], ":")+1:]
			test = strings.TrimRight(test, ";,.")
			key := dir + ":" + test + fmt.Sprint(fixed)
			if seen[key] {
				continue
			}
			seen[key] = true
			replayMu.Lock()
			cmd := exec.Command(filepath.Join(verifDir, "tools", "replay.sh"), dir, "^"+test+"$")
			cmd.Env = append(os.Environ(), "VERIF_REPO="+replayRepo)
			o, _ := cmd.CombinedOutput()
			replayMu.Unlock()
			text := string(o)
			if len(text) > 3000 {
				text = text[:3000]
			}
			rep := strings.Contains(text, "VERIF-REPRODUCED")
			kind := "known finding"
			if fixed {
				kind = "fixed defect"
			}
			res := "does not reproduce"
			if rep {
				res = "reproduces"
			}
			out = append(out, replayRun{fixed: fixed, reproduced: rep, test: dir + "/" + test, entry: line, output: text,
				line: fmt.Sprintf("%s %s/%s: %s", kind, dir, test, res)})
		}
	}
	return out
}
