package main

// Replay of solver models against the real code (go test -overlay).

type replayResult struct {
	Reproduced bool
	Text       string
}

func tryReplay(prog *Program, prop, fn, name, kind, model, verifDir string) replayResult {
	return replayResult{Text: "no replay harness for this obligation class; the model is attached"}
}
