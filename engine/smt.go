package main

// SMT term layer: terms are s-expression strings tagged with a sort. Light
// constant folding keeps the queries small and lets the executor decide
// branches syntactically when it can.

import (
	"fmt"
	"sort"
	"strconv"
	"strings"
)

type Sort string

const (
	SInt   Sort = "Int"
	SBool  Sort = "Bool"
	SStr   Sort = "Str"
	SBytes Sort = "Bytes"
	SMapSS Sort = "SMap"   // (Array Str OptStr)
	SErr   Sort = "ErrId"  // identity of an error value
	SOptS  Sort = "OptStr" // nullable string
	SOptI  Sort = "OptInt"
	SOptB  Sort = "OptBytes"
)

type Term struct {
	S    string
	Sort Sort
}

var (
	TTrue  = Term{"true", SBool}
	TFalse = Term{"false", SBool}
)

func (t Term) IsTrue() bool  { return t.S == "true" }
func (t Term) IsFalse() bool { return t.S == "false" }
func (t Term) String() string {
	return t.S
}

func IntLit(n int64) Term {
	if n < 0 {
		// avoid overflow on MinInt64
		if n == -9223372036854775808 {
			return Term{"(- 9223372036854775808)", SInt}
		}
		return Term{fmt.Sprintf("(- %d)", -n), SInt}
	}
	return Term{fmt.Sprintf("%d", n), SInt}
}

func BoolLit(b bool) Term {
	if b {
		return TTrue
	}
	return TFalse
}

func isIntLit(t Term) (int64, bool) {
	var n int64
	if len(t.S) > 0 && t.S[0] >= '0' && t.S[0] <= '9' {
		if _, err := fmt.Sscanf(t.S, "%d", &n); err == nil && fmt.Sprintf("%d", n) == t.S {
			return n, true
		}
		return 0, false
	}
	if strings.HasPrefix(t.S, "(- ") && strings.HasSuffix(t.S, ")") {
		in := t.S[3 : len(t.S)-1]
		if len(in) > 0 && in[0] >= '0' && in[0] <= '9' && !strings.ContainsAny(in, " ()") {
			if _, err := fmt.Sscanf(in, "%d", &n); err == nil {
				return -n, true
			}
		}
	}
	return 0, false
}

func App(sort Sort, op string, args ...Term) Term {
	var b strings.Builder
	b.WriteByte('(')
	b.WriteString(op)
	for _, a := range args {
		b.WriteByte(' ')
		b.WriteString(a.S)
	}
	b.WriteByte(')')
	return Term{b.String(), sort}
}

func Not(a Term) Term {
	if a.IsTrue() {
		return TFalse
	}
	if a.IsFalse() {
		return TTrue
	}
	if strings.HasPrefix(a.S, "(not ") {
		return Term{a.S[5 : len(a.S)-1], SBool}
	}
	return App(SBool, "not", a)
}

func And(as ...Term) Term {
	var out []Term
	seen := map[string]bool{}
	for _, a := range as {
		if a.IsFalse() {
			return TFalse
		}
		if a.IsTrue() || seen[a.S] {
			continue
		}
		seen[a.S] = true
		out = append(out, a)
	}
	if len(out) == 0 {
		return TTrue
	}
	if len(out) == 1 {
		return out[0]
	}
	return App(SBool, "and", out...)
}

func Or(as ...Term) Term {
	var out []Term
	seen := map[string]bool{}
	for _, a := range as {
		if a.IsTrue() {
			return TTrue
		}
		if a.IsFalse() || seen[a.S] {
			continue
		}
		seen[a.S] = true
		out = append(out, a)
	}
	if len(out) == 0 {
		return TFalse
	}
	if len(out) == 1 {
		return out[0]
	}
	return App(SBool, "or", out...)
}

func Implies(a, b Term) Term {
	if a.IsTrue() {
		return b
	}
	if a.IsFalse() || b.IsTrue() {
		return TTrue
	}
	return App(SBool, "=>", a, b)
}

func Eq(a, b Term) Term {
	if a.S == b.S {
		return TTrue
	}
	if x, ok := isIntLit(a); ok {
		if y, ok2 := isIntLit(b); ok2 {
			return BoolLit(x == y)
		}
	}
	if a.Sort == SBool {
		if a.IsTrue() {
			return b
		}
		if b.IsTrue() {
			return a
		}
		if a.IsFalse() {
			return Not(b)
		}
		if b.IsFalse() {
			return Not(a)
		}
	}
	if isStrLit(a) && isStrLit(b) {
		return BoolLit(a.S == b.S)
	}
	return App(SBool, "=", a, b)
}

func isStrLit(t Term) bool { return strings.HasPrefix(t.S, "lit!") || strings.HasPrefix(t.S, "lit.") }

func Ite(c, a, b Term) Term {
	if c.IsTrue() {
		return a
	}
	if c.IsFalse() {
		return b
	}
	if a.S == b.S {
		return a
	}
	if a.Sort == SBool {
		if a.IsTrue() && b.IsFalse() {
			return c
		}
		if a.IsFalse() && b.IsTrue() {
			return Not(c)
		}
	}
	return App(a.Sort, "ite", c, a, b)
}

func cmp(op string, a, b Term) Term {
	if x, ok := isIntLit(a); ok {
		if y, ok2 := isIntLit(b); ok2 {
			switch op {
			case "<":
				return BoolLit(x < y)
			case "<=":
				return BoolLit(x <= y)
			case ">":
				return BoolLit(x > y)
			case ">=":
				return BoolLit(x >= y)
			}
		}
	}
	return App(SBool, op, a, b)
}
func Lt(a, b Term) Term { return cmp("<", a, b) }
func Le(a, b Term) Term { return cmp("<=", a, b) }
func Gt(a, b Term) Term { return cmp(">", a, b) }
func Ge(a, b Term) Term { return cmp(">=", a, b) }

func Add(a, b Term) Term {
	if x, ok := isIntLit(a); ok {
		if y, ok2 := isIntLit(b); ok2 {
			s := x + y
			if (s > x) == (y > 0) {
				return IntLit(s)
			}
		}
		if x == 0 {
			return b
		}
	}
	if y, ok := isIntLit(b); ok && y == 0 {
		return a
	}
	return App(SInt, "+", a, b)
}
func Sub(a, b Term) Term {
	if x, ok := isIntLit(a); ok {
		if y, ok2 := isIntLit(b); ok2 {
			s := x - y
			if (s < x) == (y > 0) {
				return IntLit(s)
			}
		}
	}
	if y, ok := isIntLit(b); ok && y == 0 {
		return a
	}
	return App(SInt, "-", a, b)
}

// wrap into the two's complement range of the given bit width.
func Wrap(t Term, bits int, signed bool) Term {
	if _, ok := isIntLit(t); ok {
		return t // literals produced by folding are in range (go constants)
	}
	if bits == 64 {
		if signed {
			return App(SInt, "wrap64", t)
		}
		return App(SInt, "wrapu64", t)
	}
	if bits == 32 && signed {
		return App(SInt, "wrap32", t)
	}
	return t
}

// --------------------------------------------------------------------------
// Context: fresh symbols, string literals, and the accumulated declarations.

type Decl struct {
	Name string
	Sort Sort
	Args []Sort // non-nil for functions
}

type SymCtx struct {
	decls    []Decl
	declared map[string]bool
	lits     map[string]string // go string -> symbol
	litOrder []string
	counter  int
	preset   map[string]string // go string -> symbol declared by the spec prelude
	isPreset map[string]bool
	external map[string]bool // symbols declared by the spec prelude
}

func NewSymCtx() *SymCtx {
	return &SymCtx{declared: map[string]bool{}, lits: map[string]string{}}
}

func quoteSym(s string) string {
	ok := true
	for _, c := range s {
		if !(c >= 'a' && c <= 'z' || c >= 'A' && c <= 'Z' || c >= '0' && c <= '9' || c == '_' || c == '.' || c == '!' || c == '$') {
			ok = false
			break
		}
	}
	if ok && len(s) > 0 && !(s[0] >= '0' && s[0] <= '9') {
		return s
	}
	s = strings.ReplaceAll(s, "|", "!")
	s = strings.ReplaceAll(s, "\\", "!")
	return "|" + s + "|"
}

func (c *SymCtx) Fresh(hint string, sort Sort) Term {
	c.counter++
	name := quoteSym(fmt.Sprintf("%s!%d", hint, c.counter))
	c.decls = append(c.decls, Decl{Name: name, Sort: sort})
	c.declared[name] = true
	return Term{name, sort}
}

// Named declares (once) a constant with a stable name.
func (c *SymCtx) Named(name string, sort Sort) Term {
	q := quoteSym(name)
	if c.external[q] {
		// a program name (parameter "data") that collides with a function of the spec prelude
		q = quoteSym(name + "!in")
	}
	if !c.declared[q] {
		c.declared[q] = true
		c.decls = append(c.decls, Decl{Name: q, Sort: sort})
	}
	return Term{q, sort}
}

func (c *SymCtx) Func(name string, args []Sort, res Sort) string {
	q := quoteSym(name)
	if c.external[q] {
		return q
	}
	if !c.declared[q] {
		c.declared[q] = true
		if args == nil {
			args = []Sort{}
		}
		c.decls = append(c.decls, Decl{Name: q, Sort: res, Args: args})
	}
	return q
}

func (c *SymCtx) StrLit(s string) Term {
	if sym, ok := c.lits[s]; ok {
		return Term{sym, SStr}
	}
	if sym, ok := c.preset[s]; ok {
		c.lits[s] = sym
		c.litOrder = append(c.litOrder, s)
		if c.isPreset == nil {
			c.isPreset = map[string]bool{}
		}
		c.isPreset[sym] = true
		return Term{sym, SStr}
	}
	var b strings.Builder
	for _, r := range s {
		if r >= 'a' && r <= 'z' || r >= 'A' && r <= 'Z' || r >= '0' && r <= '9' || r == '_' {
			b.WriteRune(r)
		} else {
			b.WriteString(fmt.Sprintf("$%x", r))
		}
		if b.Len() > 40 {
			break
		}
	}
	sym := fmt.Sprintf("lit!%d!%s", len(c.lits), b.String())
	c.lits[s] = sym
	c.litOrder = append(c.litOrder, s)
	return Term{sym, SStr}
}

func (c *SymCtx) LitValue(sym string) (string, bool) {
	for s, y := range c.lits {
		if y == sym {
			return s, true
		}
	}
	return "", false
}

// Declarations renders every declaration plus the distinctness of literals.
func (c *SymCtx) Declarations() string {
	var b strings.Builder
	for _, s := range c.litOrder {
		fmt.Fprintf(&b, "(declare-const %s Str) ; %q\n", c.lits[s], s)
	}
	if len(c.litOrder) > 1 {
		b.WriteString("(assert (distinct")
		for _, s := range c.litOrder {
			b.WriteString(" " + c.lits[s])
		}
		b.WriteString("))\n")
	}
	for _, s := range c.litOrder {
		// length facts for literals
		fmt.Fprintf(&b, "(assert (= (slen %s) %d))\n", c.lits[s], len(s))
	}
	for _, d := range c.decls {
		if d.Args != nil {
			as := make([]string, len(d.Args))
			for i, a := range d.Args {
				as[i] = string(a)
			}
			fmt.Fprintf(&b, "(declare-fun %s (%s) %s)\n", d.Name, strings.Join(as, " "), d.Sort)
		} else {
			fmt.Fprintf(&b, "(declare-const %s %s)\n", d.Name, d.Sort)
		}
	}
	return b.String()
}

func sortedKeys[V any](m map[string]V) []string {
	ks := make([]string, 0, len(m))
	for k := range m {
		ks = append(ks, k)
	}
	sort.Strings(ks)
	return ks
}

// intLitVal: the value of a non-negative integer literal term.
func intLitVal(t Term) (int64, bool) {
	if t.Sort != SInt {
		return 0, false
	}
	n, err := strconv.ParseInt(t.S, 10, 64)
	return n, err == nil
}
