package main

// The external table. Every entry is an assumed contract on code outside the
// verified set; the names actually used by a run are echoed into the
// evidence file's assumptions.

import (
	"fmt"
	"go/types"
	"strings"

	"golang.org/x/tools/go/ssa"
)

var intrinsics = map[string]Intrinsic{}

type prefixIntrinsic struct {
	prefix string
	fn     Intrinsic
}

var intrinsicPrefixes []prefixIntrinsic

// intrinsicDocs is the assumed contract in words (shown in evidence).
var intrinsicDocs = map[string]string{}

func reg(name, doc string, fn Intrinsic) {
	intrinsics[name] = fn
	intrinsicDocs[name] = doc
}

func regPrefix(prefix, doc string, fn Intrinsic) {
	intrinsicPrefixes = append(intrinsicPrefixes, prefixIntrinsic{prefix, fn})
	intrinsicDocs[prefix+"*"] = doc
}

func noop(x *Exec, st *State, fr *Frame, c *callCtx) bool {
	var rv Value
	if c.ret != nil {
		rv = x.symbolicResult(st, c)
	}
	return x.finish(st, fr, c, rv)
}

// symbolicResult produces an unconstrained result of the call's type.
func (x *Exec) symbolicResult(st *State, c *callCtx) Value {
	if c.ret == nil {
		return nil
	}
	x.callCounter++
	t := c.ret.Type()
	short := c.name
	if i := strings.LastIndex(short, "/"); i >= 0 {
		short = short[i+1:]
	}
	name := fmt.Sprintf("%s!%d", short, x.callCounter)
	if tup, ok := t.(*types.Tuple); ok {
		vs := make([]Value, tup.Len())
		for i := range vs {
			vs[i] = x.symbolic(st, tup.At(i).Type(), fmt.Sprintf("%s.%d", name, i))
		}
		return VTuple{vs}
	}
	return x.symbolic(st, t, name)
}

func (x *Exec) freshErr(st *State, name string, nilT Term) VIface {
	x.callCounter++
	id := x.sym.Fresh(name+".id", SErr)
	// a freshly produced error is not one of the package-level sentinel errors
	st.assume(Not(Eq(id, x.sym.Named("global.database/sql.ErrNoRows.id", SErr))))
	return VIface{Nil: nilT, Id: id, Typ: types.Universe.Lookup("error").Type()}
}

func errType() types.Type { return types.Universe.Lookup("error").Type() }

func init() {
	reg("github.com/resonatehq/resonate/internal/util.Assert",
		"util.Assert(c, _) panics unless c (viper ignore-asserts=false, the production default)",
		func(x *Exec, st *State, fr *Frame, c *callCtx) bool {
			cond := x.scalar(st, c.args[0])
			msg := "assert"
			if cs, ok := c.common.Args[1].(*ssa.Const); ok && cs.Value != nil {
				msg = "util.Assert: " + strings.Trim(cs.Value.ExactString(), `"`)
			}
			x.oblige(st, "assert", msg, cond, c.common.Pos(), x.assertProps)
			if cond.IsFalse() {
				st.dead = true
				return true
			}
			st.assume(cond)
			return x.finish(st, fr, c, nil)
		})
	for _, n := range []string{"Error", "Warn", "Info", "Debug"} {
		reg("log/slog."+n, "logging has no effect on verified state and does not panic", noop)
	}
	reg("(*log/slog.Logger).Error", "logging: no effect", noop)
	reg("(*log/slog.Logger).Warn", "logging: no effect", noop)
	reg("(*log/slog.Logger).Info", "logging: no effect", noop)
	reg("(*log/slog.Logger).Debug", "logging: no effect", noop)

	reg("fmt.Sprintf", "fmt.Sprintf(lit, args...) is an uninterpreted function of the literal and its arguments (no injectivity assumed)",
		func(x *Exec, st *State, fr *Frame, c *callCtx) bool {
			return x.finish(st, fr, c, VScalar{x.sprintf(st, c)})
		})
	reg("fmt.Errorf", "fmt.Errorf returns a fresh non-nil error", func(x *Exec, st *State, fr *Frame, c *callCtx) bool {
		return x.finish(st, fr, c, x.freshErr(st, "errorf", TFalse))
	})
	reg("errors.New", "errors.New returns a fresh non-nil error", func(x *Exec, st *State, fr *Frame, c *callCtx) bool {
		return x.finish(st, fr, c, x.freshErr(st, "errors.new", TFalse))
	})
	reg("fmt.Sprint", "uninterpreted", func(x *Exec, st *State, fr *Frame, c *callCtx) bool {
		return x.finish(st, fr, c, VScalar{x.sym.Fresh("sprint", SStr)})
	})

	// strings
	reg("strings.ReplaceAll", "uninterpreted function str.replaceall", func(x *Exec, st *State, fr *Frame, c *callCtx) bool {
		return x.finish(st, fr, c, VScalar{App(SStr, "str.replaceall", x.scalar(st, c.args[0]), x.scalar(st, c.args[1]), x.scalar(st, c.args[2]))})
	})
	reg("strings.ToLower", "uninterpreted function str.lower", func(x *Exec, st *State, fr *Frame, c *callCtx) bool {
		return x.finish(st, fr, c, VScalar{App(SStr, "str.lower", x.scalar(st, c.args[0]))})
	})
	reg("strings.ToUpper", "uninterpreted function str.upper", func(x *Exec, st *State, fr *Frame, c *callCtx) bool {
		return x.finish(st, fr, c, VScalar{App(SStr, "str.upper", x.scalar(st, c.args[0]))})
	})
	reg("strings.TrimSpace", "uninterpreted", func(x *Exec, st *State, fr *Frame, c *callCtx) bool {
		return x.finish(st, fr, c, VScalar{App(SStr, "str.trimspace", x.scalar(st, c.args[0]))})
	})
	reg("strings.TrimPrefix", "uninterpreted", func(x *Exec, st *State, fr *Frame, c *callCtx) bool {
		return x.finish(st, fr, c, VScalar{App(SStr, "str.trimprefix", x.scalar(st, c.args[0]), x.scalar(st, c.args[1]))})
	})
	reg("strings.TrimSuffix", "uninterpreted", func(x *Exec, st *State, fr *Frame, c *callCtx) bool {
		return x.finish(st, fr, c, VScalar{App(SStr, "str.trimsuffix", x.scalar(st, c.args[0]), x.scalar(st, c.args[1]))})
	})
	reg("strings.HasPrefix", "uninterpreted predicate", func(x *Exec, st *State, fr *Frame, c *callCtx) bool {
		return x.finish(st, fr, c, VScalar{App(SBool, "str.hasprefix", x.scalar(st, c.args[0]), x.scalar(st, c.args[1]))})
	})
	reg("strings.HasSuffix", "uninterpreted predicate", func(x *Exec, st *State, fr *Frame, c *callCtx) bool {
		return x.finish(st, fr, c, VScalar{App(SBool, "str.hassuffix", x.scalar(st, c.args[0]), x.scalar(st, c.args[1]))})
	})
	reg("strings.Contains", "uninterpreted predicate", func(x *Exec, st *State, fr *Frame, c *callCtx) bool {
		return x.finish(st, fr, c, VScalar{App(SBool, "str.contains", x.scalar(st, c.args[0]), x.scalar(st, c.args[1]))})
	})
	reg("strings.EqualFold", "uninterpreted predicate, reflexive", func(x *Exec, st *State, fr *Frame, c *callCtx) bool {
		a, b := x.scalar(st, c.args[0]), x.scalar(st, c.args[1])
		return x.finish(st, fr, c, VScalar{Eq(App(SStr, "str.lower", a), App(SStr, "str.lower", b))})
	})
	reg("strings.Join", "uninterpreted", func(x *Exec, st *State, fr *Frame, c *callCtx) bool {
		return x.finish(st, fr, c, VScalar{x.sym.Fresh("strings.join", SStr)})
	})
	reg("strings.Split", "returns a non-nil slice of unknown strings with len >= 1", func(x *Exec, st *State, fr *Frame, c *callCtx) bool {
		v := x.symbolicResult(st, c).(VSlice)
		st.assume(Not(v.Nil))
		st.assume(Ge(v.Len, IntLit(1)))
		return x.finish(st, fr, c, v)
	})
	reg("strings.Clone", "identity", func(x *Exec, st *State, fr *Frame, c *callCtx) bool {
		return x.finish(st, fr, c, c.args[0])
	})
	reg("strconv.Itoa", "uninterpreted injective itoa", func(x *Exec, st *State, fr *Frame, c *callCtx) bool {
		return x.finish(st, fr, c, VScalar{App(SStr, "itoa", x.scalar(st, c.args[0]))})
	})
	reg("strconv.Atoi", "may fail; result unconstrained", func(x *Exec, st *State, fr *Frame, c *callCtx) bool {
		return x.finish(st, fr, c, x.symbolicResult(st, c))
	})
	reg("strconv.ParseInt", "may fail; result unconstrained", func(x *Exec, st *State, fr *Frame, c *callCtx) bool {
		return x.finish(st, fr, c, x.symbolicResult(st, c))
	})

	// encoding/json
	reg("encoding/json.Marshal", "json.Marshal: may fail; on success returns non-nil bytes tojson(v); tojson is injective on string maps (jsonmap(tojson(m)) == m) and on strings (json.str(tojson.str(s)) == s)",
		func(x *Exec, st *State, fr *Frame, c *callCtx) bool { return x.jsonMarshal(st, fr, c) })
	reg("encoding/json.Unmarshal", "json.Unmarshal: may fail; on success a string map target holds jsonmap(bytes); a pointer target may be left nil (input null)",
		func(x *Exec, st *State, fr *Frame, c *callCtx) bool { return x.jsonUnmarshal(st, fr, c) })
	reg("github.com/resonatehq/resonate/internal/util.UnmarshalChain", "util.UnmarshalChain: json.Unmarshal into each target in turn; the first success wins (a pointer target may be left nil: input null), earlier targets are zeroed; all fail => error", func(x *Exec, st *State, fr *Frame, c *callCtx) bool {
		return x.unmarshalChain(st, fr, c)
	})
	// prometheus: metric vectors are created with fixed label names in metrics.New; the label arity at
	// every call site is assumed to match (WithLabelValues panics otherwise)
	nonNilIface := func(x *Exec, st *State, fr *Frame, c *callCtx) bool {
		x.callCounter++
		// WithLabelValues panics on a label value that is not valid UTF-8. Label values that the server makes up
		// (constants, String() of its own types, formatted numbers, the name / protocol tags it sets itself) are
		// valid; anything else may be text a client sent (a path segment, an id): a panic obligation.
		if c.common != nil && strings.HasSuffix(c.name, ".WithLabelValues") {
			for _, lv := range labelValueOperands(c.common) {
				if !serverMadeString(lv, 0) {
					x.oblige(st, "panic", "metric label value is made up by the server (WithLabelValues panics on a value that is not valid UTF-8, which text taken from a request can be)", TFalse, c.common.Pos(), x.panicProps)
					break
				}
			}
		}
		return x.finish(st, fr, c, VIface{Nil: TFalse, Typ: c.ret.Type(), Id: x.sym.Fresh("metric.id", SErr)})
	}
	reg("(*github.com/prometheus/client_golang/prometheus.GaugeVec).WithLabelValues", "returns a non-nil gauge; ASSUMED: the number of label values matches the vector's label names (fixed in metrics.New), otherwise it panics", nonNilIface)
	reg("(*github.com/prometheus/client_golang/prometheus.CounterVec).WithLabelValues", "returns a non-nil counter; ASSUMED: label arity matches (fixed in metrics.New)", nonNilIface)
	reg("(*github.com/prometheus/client_golang/prometheus.HistogramVec).WithLabelValues", "returns a non-nil observer; ASSUMED: label arity matches (fixed in metrics.New)", nonNilIface)
	for _, m := range []string{"Gauge).Inc", "Gauge).Dec", "Gauge).Set", "Gauge).Add", "Counter).Inc", "Counter).Add", "Observer).Observe"} {
		reg("(github.com/prometheus/client_golang/prometheus."+m, "metrics have no effect on verified state", func(x *Exec, st *State, fr *Frame, c *callCtx) bool {
			return x.finish(st, fr, c, nil)
		})
	}
	reg("math/rand.Intn", "rand.Intn(n): panics unless n > 0; returns an arbitrary r with 0 <= r < n", func(x *Exec, st *State, fr *Frame, c *callCtx) bool {
		n := x.scalar(st, c.args[0])
		x.oblige(st, "panic", "rand.Intn called with n <= 0", Gt(n, IntLit(0)), c.common.Pos(), x.panicProps)
		st.assume(Gt(n, IntLit(0)))
		r := x.sym.Fresh("rand.intn", SInt)
		st.assume(And(Ge(r, IntLit(0)), Lt(r, n)))
		return x.finish(st, fr, c, VScalar{r})
	})
	// robfig/cron: parsing a client supplied expression may fail; the parsed schedule is opaque
	reg(repoModule+"/internal/util.ParseCron", "util.ParseCron (robfig/cron parser): may fail; on success a non-nil schedule", func(x *Exec, st *State, fr *Frame, c *callCtx) bool {
		tup := c.ret.Type().(*types.Tuple)
		fail := x.sym.Fresh("cron.parse.fails", SBool)
		x.callCounter++
		sched := VIface{Nil: fail, Typ: tup.At(0).Type(), Id: x.sym.Fresh("cron.schedule.id", SErr)}
		if x.cronExprs == nil {
			x.cronExprs = map[string]Term{}
		}
		x.cronExprs[sched.Id.S] = x.scalar(st, c.args[0])
		return x.finish(st, fr, c, VTuple{[]Value{sched, x.freshErr(st, "cron.parse.err", Not(fail))}})
	})
	reg("(*database/sql.Row).Err", "row.Err(): the error, if any, of starting the query: nil or an arbitrary error (errors met while stepping the statement are reported by Scan)", func(x *Exec, st *State, fr *Frame, c *callCtx) bool {
		fails := x.sym.Fresh("row.err", SBool)
		return x.finish(st, fr, c, x.freshErr(st, "row.err", Not(fails)))
	})
	reg("github.com/robfig/cron/v3.NewParser", "cron.NewParser(options): an opaque parser value", func(x *Exec, st *State, fr *Frame, c *callCtx) bool {
		return x.finish(st, fr, c, x.symbolicResult(st, c))
	})
	reg("(github.com/robfig/cron/v3.Parser).Parse", "parser.Parse(expr): may fail; on success a non-nil schedule that is the parse of exactly expr (the spec builtin cronexpr(schedule) names the expression)", func(x *Exec, st *State, fr *Frame, c *callCtx) bool {
		tup := c.ret.Type().(*types.Tuple)
		fail := x.sym.Fresh("cron.parse.fails", SBool)
		x.callCounter++
		sched := VIface{Nil: fail, Typ: tup.At(0).Type(), Id: x.sym.Fresh("cron.schedule.id", SErr)}
		if x.cronExprs == nil {
			x.cronExprs = map[string]Term{}
		}
		x.cronExprs[sched.Id.S] = x.scalar(st, c.args[1])
		return x.finish(st, fr, c, VTuple{[]Value{sched, x.freshErr(st, "cron.parse.err", Not(fail))}})
	})
	// go-playground/validator: a field error describes one failed binding rule with strings
	for _, m := range []string{"Field", "Tag", "Param", "Error", "Namespace", "StructField", "ActualTag"} {
		reg("(github.com/go-playground/validator/v10.FieldError)."+m, "an arbitrary string describing the failed rule", func(x *Exec, st *State, fr *Frame, c *callCtx) bool {
			return x.finish(st, fr, c, VScalar{x.sym.Fresh("validator.field", SStr)})
		})
	}
	// gocoro scheduler (used by System.Tick)
	reg("github.com/resonatehq/gocoro.Add", "gocoro.Add(scheduler, f): the scheduler either accepts the coroutine (non-nil promise, true) or is full (nil, false); recorded as sched_add", func(x *Exec, st *State, fr *Frame, c *callCtx) bool {
		ok := x.sym.Fresh("sched.add.ok", SBool)
		tup := c.ret.Type().(*types.Tuple)
		x.callCounter++
		pr := VIface{Nil: Not(ok), Typ: tup.At(0).Type(), Id: x.sym.Fresh("promise.id", SErr)}
		res := []Value{pr, VScalar{ok}}
		var as []TV
		sig := c.common.Signature()
		for i, a := range c.args {
			if i < sig.Params().Len() {
				as = append(as, TV{a, sig.Params().At(i).Type()})
			}
		}
		as = append(as, TV{nil, tup.At(0).Type()}, TV{nil, tup.At(1).Type()})
		st.rec = append(append([]recordedCall(nil), st.rec...), recordedCall{Name: "sched_add", Args: as, Results: res})
		return x.finish(st, fr, c, VTuple{res})
	})
	for _, m := range []string{"RunUntilBlocked", "Shutdown", "Tick"} {
		reg("(github.com/resonatehq/gocoro.Scheduler)."+m, "runs coroutines: their effects are the coroutines' own contracts; no effect on the caller's verified state", func(x *Exec, st *State, fr *Frame, c *callCtx) bool {
			return x.finish(st, fr, c, nil)
		})
	}
	reg("(github.com/resonatehq/gocoro.Scheduler).Size", "number of live coroutines: an arbitrary non-negative integer", func(x *Exec, st *State, fr *Frame, c *callCtx) bool {
		n := x.sym.Fresh("sched.size", SInt)
		st.assume(Ge(n, IntLit(0)))
		return x.finish(st, fr, c, VScalar{n})
	})
	reg("(github.com/resonatehq/gocoro/pkg/promise.Promise).Completed", "arbitrary", noop)
	reg("(github.com/resonatehq/gocoro/pkg/promise.Promise).Await", "arbitrary", noop)
	// net/http client side (the http plugin): the network is arbitrary
	twoResultMayFail := func(label string) Intrinsic {
		return func(x *Exec, st *State, fr *Frame, c *callCtx) bool {
			fail := x.sym.Fresh(label+".fails", SBool)
			tup := c.ret.Type().(*types.Tuple)
			ts, fs := x.fork(st, fail, label+" fails")
			if ts != nil {
				x.completeCall(ts, c, VTuple{[]Value{VPtr{Nil: TTrue, Typ: tup.At(0).Type()}, x.freshErr(ts, label+".err", TFalse)}})
			}
			if fs != nil {
				x.callCounter++
				pt := tup.At(0).Type().(*types.Pointer)
				obj := x.alloc(fs, VLazy{Typ: pt.Elem(), Name: fmt.Sprintf("%s!%d", label, x.callCounter)})
				x.completeCall(fs, c, VTuple{[]Value{VPtr{Nil: TFalse, Loc: &Loc{Obj: obj}, Typ: pt}, VIface{Nil: TTrue, Typ: errType()}}})
			}
			return true
		}
	}
	reg("net/http.NewRequest", "may fail; on success a non-nil request", twoResultMayFail("http.NewRequest"))
	reg("(*net/http.Client).Do", "the network: may fail; on success a non-nil response with an arbitrary status code", twoResultMayFail("http.Do"))
	reg("(net/http.Header).Set", "ASSUMED: the request's Header map is non-nil (NewRequest allocates it); no effect on verified state", func(x *Exec, st *State, fr *Frame, c *callCtx) bool {
		return x.finish(st, fr, c, nil)
	})
	// net/url
	reg("net/url.Parse", "url.Parse: may fail; on success a non-nil *URL whose components are unconstrained strings", func(x *Exec, st *State, fr *Frame, c *callCtx) bool {
		fail := x.sym.Fresh("url.parse.fails", SBool)
		tup := c.ret.Type().(*types.Tuple)
		ts, fs := x.fork(st, fail, "url.Parse fails")
		if ts != nil {
			x.completeCall(ts, c, VTuple{[]Value{VPtr{Nil: TTrue, Typ: tup.At(0).Type()}, x.freshErr(ts, "url.err", TFalse)}})
		}
		if fs != nil {
			x.callCounter++
			pt := tup.At(0).Type().(*types.Pointer)
			// the string components are uninterpreted functions url.field.<Name> of the parsed text (the spec
			// builtin urlpart(text, "Name") denotes the same term); everything else is unconstrained
			origin := x.scalar(fs, c.args[0])
			var uv Value = VLazy{Typ: pt.Elem(), Name: fmt.Sprintf("url!%d", x.callCounter)}
			if sv, ok := x.symbolic(fs, pt.Elem(), fmt.Sprintf("url!%d", x.callCounter)).(VStruct); ok {
				if stt, ok := pt.Elem().Underlying().(*types.Struct); ok && stt.NumFields() == len(sv.F) {
					f := append([]Value(nil), sv.F...)
					for k := 0; k < stt.NumFields(); k++ {
						if b, ok := stt.Field(k).Type().Underlying().(*types.Basic); ok && b.Kind() == types.String {
							f[k] = VScalar{App(SStr, x.sym.Func("url.field."+stt.Field(k).Name(), []Sort{SStr}, SStr), origin)}
						}
					}
					uv = VStruct{f}
				}
			}
			obj := x.alloc(fs, uv)
			if x.urlOrigin == nil {
				x.urlOrigin = map[int]Term{}
			}
			x.urlOrigin[obj] = origin
			x.completeCall(fs, c, VTuple{[]Value{VPtr{Nil: TFalse, Loc: &Loc{Obj: obj}, Typ: pt}, VIface{Nil: TTrue, Typ: errType()}}})
		}
		return true
	})
	// string-valued methods of a parsed URL: uninterpreted functions of the text it was parsed from (each
	// method its own function: String and Redacted are not the same function)
	for _, m := range []string{"String", "Redacted", "Hostname", "Port", "RequestURI", "EscapedPath", "EscapedFragment"} {
		m := m
		reg("(*net/url.URL)."+m, "an uninterpreted function url."+m+" of the text the URL was parsed from", func(x *Exec, st *State, fr *Frame, c *callCtx) bool {
			if p, ok := x.force(st, c.args[0]).(VPtr); ok && p.Loc != nil {
				if origin, ok := x.urlOrigin[p.Loc.Obj]; ok {
					f := x.sym.Func("url."+m, []Sort{SStr}, SStr)
					return x.finish(st, fr, c, VScalar{App(SStr, f, origin)})
				}
			}
			return x.finish(st, fr, c, x.symbolicResult(st, c))
		})
	}
	reg("bytes.NewReader", "a reader over the given bytes", func(x *Exec, st *State, fr *Frame, c *callCtx) bool {
		return x.finish(st, fr, c, x.newBox(st, c.common.Signature().Results().At(0).Type(), x.force(st, c.args[0])))
	})
	reg("encoding/json.NewDecoder", "a decoder over the reader's bytes (only readers created by bytes.NewReader)", func(x *Exec, st *State, fr *Frame, c *callCtx) bool {
		b, ok := x.boxOf(st, c.args[0])
		if !ok {
			x.unsupported(st, "json.NewDecoder over an unknown reader")
			return true
		}
		return x.finish(st, fr, c, x.newBox(st, c.common.Signature().Results().At(0).Type(), b))
	})
	reg("(*encoding/json.Decoder).DisallowUnknownFields", "restricts what decodes successfully; failure is already arbitrary", func(x *Exec, st *State, fr *Frame, c *callCtx) bool {
		return x.finish(st, fr, c, nil)
	})
	reg("(*encoding/json.Decoder).Decode", "as json.Unmarshal of the decoder's bytes: may fail; a pointer target may be left nil (input null)", func(x *Exec, st *State, fr *Frame, c *callCtx) bool {
		b, ok := x.boxOf(st, c.args[0])
		data, ok2 := b.(VBytes)
		if !ok || !ok2 {
			x.unsupported(st, "Decode on an unknown decoder")
			return true
		}
		return x.jsonDecodeInto(st, fr, c, data, c.args[1])
	})
	reg("encoding/json.Valid", "an uninterpreted predicate of the bytes (json.valid)", func(x *Exec, st *State, fr *Frame, c *callCtx) bool {
		b, ok := x.force(st, c.args[0]).(VBytes)
		if !ok {
			return x.finish(st, fr, c, x.symbolicResult(st, c))
		}
		f := x.sym.Func("json.valid", []Sort{SBytes}, SBool)
		v := App(SBool, f, b.B)
		st.assume(Implies(v, Gt(App(SInt, "bytes.len", b.B), IntLit(0)))) // valid JSON is not empty
		return x.finish(st, fr, c, VScalar{v})
	})

	reg("github.com/resonatehq/resonate/internal/app/subsystems/aio/store.StoreErr", "StoreErr wraps an error with caller information: non-nil whenever its argument is non-nil",
		func(x *Exec, st *State, fr *Frame, c *callCtx) bool {
			in, _ := x.force(st, c.args[0]).(VIface)
			e := x.freshErr(st, "storeerr", And(in.Nil, x.sym.Fresh("storeerr.nil", SBool)))
			return x.finish(st, fr, c, e)
		})
	reg("github.com/resonatehq/resonate/internal/util.Next", "util.Next(t, cron): may fail; on success returns cronnext(cron, t), the next occurrence, assumed strictly later than t (robfig/cron; an expression with no occurrence within five years yields the zero time, which is outside this assumption)",
		func(x *Exec, st *State, fr *Frame, c *callCtx) bool {
			t := x.scalar(st, c.args[0])
			cr := x.scalar(st, c.args[1])
			next := App(SInt, "cronnext", cr, t)
			fail := x.sym.Fresh("cron.fails", SBool)
			st.assume(Implies(Not(fail), And(Gt(next, t), Le(next, Term{"9223372036854775807", SInt}))))
			return x.finish(st, fr, c, VTuple{[]Value{VScalar{Ite(fail, IntLit(0), next)}, x.freshErr(st, "cron.err", Not(fail))}})
		})
	// time
	reg("(time.Duration).Milliseconds", "uninterpreted non-negative for non-negative durations", func(x *Exec, st *State, fr *Frame, c *callCtx) bool {
		d := x.scalar(st, c.args[0])
		return x.finish(st, fr, c, VScalar{App(SInt, "goquo", d, IntLit(1000000))})
	})
	reg("time.Now", "an arbitrary instant; recorded as time_now (the spec builtin unixmilli(t) is t.UnixMilli())", func(x *Exec, st *State, fr *Frame, c *callCtx) bool {
		v := x.symbolicResult(st, c)
		if c.ret != nil {
			st.rec = append(append([]recordedCall(nil), st.rec...), recordedCall{Name: "time_now", Args: []TV{{nil, c.ret.Type()}}, Results: []Value{v}})
		}
		return x.finish(st, fr, c, v)
	})
	reg("time.After", "a channel that delivers once the duration has elapsed: an open, non-nil channel", func(x *Exec, st *State, fr *Frame, c *callCtx) bool {
		x.callCounter++
		t := c.ret.Type()
		obj := x.alloc(st, &ChanObj{Typ: t, Cap: IntLit(1), Name: fmt.Sprintf("time.After!%d", x.callCounter)})
		return x.finish(st, fr, c, VChan{Nil: TFalse, Obj: obj, Typ: t, Id: x.sym.Fresh("chan.id", SErr)})
	})
	// time.Time values: the instant is kept as Unix nanoseconds in the struct's second field (a modelling
	// convention private to these intrinsics; wall and loc are not interpreted)
	timeVal := func(x *Exec, st *State, t types.Type, ns Term) Value {
		v := x.zero(st, t)
		if sv, ok := v.(VStruct); ok && len(sv.F) == 3 {
			f := append([]Value(nil), sv.F...)
			f[1] = VScalar{ns}
			return VStruct{f}
		}
		return x.symbolic(st, t, "time")
	}
	timeNs := func(x *Exec, st *State, v Value) (Term, bool) {
		if sv, ok := x.force(st, v).(VStruct); ok && len(sv.F) == 3 {
			if sc, ok := x.force(st, sv.F[1]).(VScalar); ok && sc.T.Sort == SInt {
				return sc.T, true
			}
		}
		return Term{}, false
	}
	reg("time.Unix", "time.Unix(sec, nsec): the instant sec*1e9+nsec (mathematical integers)", func(x *Exec, st *State, fr *Frame, c *callCtx) bool {
		sec, ns := x.scalar(st, c.args[0]), x.scalar(st, c.args[1])
		return x.finish(st, fr, c, timeVal(x, st, c.ret.Type(), App(SInt, "+", App(SInt, "*", sec, IntLit(1000000000)), ns)))
	})
	reg("time.UnixMilli", "time.UnixMilli(ms): the instant ms*1e6 ns", func(x *Exec, st *State, fr *Frame, c *callCtx) bool {
		ms := x.scalar(st, c.args[0])
		return x.finish(st, fr, c, timeVal(x, st, c.ret.Type(), App(SInt, "*", ms, IntLit(1000000))))
	})
	reg("(time.Time).Truncate", "t.Truncate(d) for a positive d dividing 24h: t rounded down to a multiple of d since the Unix epoch (the zero time is a whole number of days before it); other d: an arbitrary instant", func(x *Exec, st *State, fr *Frame, c *callCtx) bool {
		ns, ok := timeNs(x, st, c.args[0])
		d := x.scalar(st, c.args[1])
		if dv, isLit := intLitVal(d); ok && isLit && dv > 0 && 86400000000000%dv == 0 {
			return x.finish(st, fr, c, timeVal(x, st, c.ret.Type(), App(SInt, "-", ns, App(SInt, "mod", ns, d))))
		}
		return x.finish(st, fr, c, timeVal(x, st, c.ret.Type(), x.sym.Fresh("time.truncate", SInt)))
	})
	reg("(time.Time).Round", "t.Round(d) for a positive d dividing 24h: t rounded to the nearest multiple of d since the Unix epoch, halfway values up; other d: an arbitrary instant", func(x *Exec, st *State, fr *Frame, c *callCtx) bool {
		ns, ok := timeNs(x, st, c.args[0])
		d := x.scalar(st, c.args[1])
		if dv, isLit := intLitVal(d); ok && isLit && dv > 0 && 86400000000000%dv == 0 {
			shifted := App(SInt, "+", ns, IntLit(dv/2))
			return x.finish(st, fr, c, timeVal(x, st, c.ret.Type(), App(SInt, "-", shifted, App(SInt, "mod", shifted, d))))
		}
		return x.finish(st, fr, c, timeVal(x, st, c.ret.Type(), x.sym.Fresh("time.round", SInt)))
	})
	reg("(time.Time).UnixMilli", "t.UnixMilli(): floor(ns/1e6) of the instant when it was built by the modelled constructors, otherwise an unconstrained int64", func(x *Exec, st *State, fr *Frame, c *callCtx) bool {
		if ns, ok := timeNs(x, st, c.args[0]); ok {
			return x.finish(st, fr, c, VScalar{App(SInt, "div", ns, IntLit(1000000))})
		}
		return x.finish(st, fr, c, VScalar{x.sym.Fresh("time.unixmilli", SInt)})
	})
	for _, u := range []struct {
		name string
		div  int64
	}{{"Unix", 1000000000}, {"UnixMicro", 1000}, {"UnixNano", 1}} {
		u := u
		reg("(time.Time)."+u.name, "t."+u.name+"(): floor of the instant's Unix nanoseconds divided by the unit when the instant was built by the modelled constructors, otherwise an unconstrained int64", func(x *Exec, st *State, fr *Frame, c *callCtx) bool {
			if ns, ok := timeNs(x, st, c.args[0]); ok {
				if u.div == 1 {
					return x.finish(st, fr, c, VScalar{ns})
				}
				return x.finish(st, fr, c, VScalar{App(SInt, "div", ns, IntLit(u.div))})
			}
			return x.finish(st, fr, c, VScalar{x.sym.Fresh("time."+strings.ToLower(u.name), SInt)})
		})
	}
	reg("(github.com/robfig/cron/v3.Schedule).Next", "schedule.Next(t) of a schedule parsed from expression e: the instant cronnextns(e, t); for t on a millisecond boundary its millisecond is cronnext(e, ms(t)) -- the definition of the spec function cronnext", func(x *Exec, st *State, fr *Frame, c *callCtx) bool {
		ns, ok := timeNs(x, st, c.args[1])
		iv, isI := x.force(st, c.args[0]).(VIface)
		if !ok || !isI || x.cronExprs == nil {
			return x.finish(st, fr, c, x.symbolic(st, c.ret.Type(), "cron.next"))
		}
		e, known := x.cronExprs[iv.Id.S]
		if !known {
			return x.finish(st, fr, c, x.symbolic(st, c.ret.Type(), "cron.next"))
		}
		next := App(SInt, "cronnextns", e, ns)
		st.assume(Implies(Eq(App(SInt, "mod", ns, IntLit(1000000)), IntLit(0)),
			Eq(App(SInt, "div", next, IntLit(1000000)), App(SInt, "cronnext", e, App(SInt, "div", ns, IntLit(1000000))))))
		return x.finish(st, fr, c, timeVal(x, st, c.ret.Type(), next))
	})

	// uuid
	reg("github.com/google/uuid.New", "opaque", noop)
	reg("github.com/google/uuid.NewString", "fresh string", noop)
	reg("(github.com/google/uuid.UUID).String", "fresh string", noop)
}

// sprintf models fmt.Sprintf as an uninterpreted function per format literal.
func (x *Exec) sprintf(st *State, c *callCtx) Term {
	format := x.scalar(st, c.args[0])
	var parts []Term
	var sorts []Sort
	if len(c.args) > 1 {
		if sl, ok := x.force(st, c.args[1]).(VSlice); ok && sl.Arr >= 0 {
			if arr, ok := st.heap[sl.Arr].(VArray); ok {
				for _, e := range arr.E {
					t := x.anyToTerm(st, e)
					parts = append(parts, t)
					sorts = append(sorts, t.Sort)
				}
			}
		}
	}
	fname := "sprintf." + format.S
	for _, s := range sorts {
		fname += "." + string(s)
	}
	f := x.sym.Func(fname, sorts, SStr)
	var res Term
	if len(parts) == 0 {
		res = Term{f, SStr}
	} else {
		res = App(SStr, f, parts...)
	}
	if lit, ok := x.sym.LitValue(format.S); ok {
		if x.sprintfFmt == nil {
			x.sprintfFmt = map[string]string{}
		}
		x.sprintfFmt[res.S] = lit // remembered for statements built from a template (searchTemplate)
	}
	// a format with literal text besides its verbs never yields the empty string
	if lit, ok := x.sym.LitValue(format.S); ok {
		rest := lit
		for _, v := range []string{"%s", "%d", "%v", "%w", "%q"} {
			rest = strings.ReplaceAll(rest, v, "")
		}
		if rest != "" {
			st.assume(Not(Eq(res, x.sym.StrLit(""))))
		}
	}
	return res
}

// anyToTerm lowers the dynamic value of an interface (fmt argument) to a term.
func (x *Exec) anyToTerm(st *State, v Value) Term {
	v = x.force(st, v)
	switch vv := v.(type) {
	case VIface:
		if vv.Dyn != nil {
			return x.anyToTerm(st, vv.Val)
		}
		if vv.Id.S != "" {
			return vv.Id
		}
	case VScalar:
		return vv.T
	case VBytes:
		return vv.B
	case VPtr:
		if vv.Loc != nil {
			return x.sym.Named(fmt.Sprintf("ptrid.%d", vv.Loc.Obj), SInt)
		}
	case VMap:
		if isStringMap(vv.Typ) && vv.Obj >= 0 {
			return st.heap[vv.Obj].(MapSS).A
		}
	}
	return x.sym.Fresh("fmtarg", SInt)
}

// --------------------------------------------------------------------------
// json

func (x *Exec) jsonMarshal(st *State, fr *Frame, c *callCtx) bool {
	arg := x.force(st, c.args[0])
	var payload Term
	known := false
	if iv, ok := arg.(VIface); ok && iv.Dyn != nil {
		inner := x.force(st, iv.Val)
		switch vv := inner.(type) {
		case VMap:
			if isStringMap(vv.Typ) {
				a := Term{"smap.empty", SMapSS}
				if vv.Obj >= 0 {
					a = st.heap[vv.Obj].(MapSS).A
				}
				// json distinguishes a nil map ("null") from an empty one ("{}")
				enc := App(SBytes, "tojson", a)
				// ground instances of: jsonmap(tojson(m)) == m, tojson(m) != null
				st.assume(Eq(App(SMapSS, "jsonmap", enc), a))
				st.assume(Not(Eq(enc, Term{"json.null", SBytes})))
				payload = Ite(vv.Nil, Term{"json.null", SBytes}, enc)
				known = true
			}
		case VScalar:
			// a Go string: the JSON string value that decodes to it (json.str(tojson.str(s)) == s)
			if b, ok := iv.Dyn.Underlying().(*types.Basic); ok && b.Kind() == types.String && vv.T.Sort == SStr {
				enc := App(SBytes, x.sym.Func("tojson.str", []Sort{SStr}, SBytes), vv.T)
				st.assume(Eq(App(SStr, x.sym.Func("json.str", []Sort{SBytes}, SStr), enc), vv.T))
				st.assume(Not(Eq(enc, Term{"json.null", SBytes})))
				payload = enc
				known = true
			}
		case VPtr:
			// pointer to a struct: tojson of an abstraction of the struct
			if vv.Loc != nil {
				if t, ok := x.structJSON(st, vv, iv.Dyn); ok {
					payload = Ite(vv.Nil, Term{"json.null", SBytes}, t)
					known = true
				}
			}
		}
	}
	if !known {
		payload = x.sym.Fresh("json.marshal", SBytes)
	}
	fail := x.sym.Fresh("json.marshal.fails", SBool)
	errV := x.freshErr(st, "json.marshal.err", Not(fail))
	bytes := VBytes{Nil: fail, B: Ite(fail, Term{"bytes.empty", SBytes}, payload)}
	return x.finish(st, fr, c, VTuple{[]Value{bytes, errV}})
}

// structJSON encodes *message.Mesg and similar flat structs of strings.
func (x *Exec) structJSON(st *State, p VPtr, t types.Type) (Term, bool) {
	pt, ok := t.Underlying().(*types.Pointer)
	if !ok {
		return Term{}, false
	}
	stt, ok := pt.Elem().Underlying().(*types.Struct)
	if !ok {
		return Term{}, false
	}
	v := x.force(st, x.load(st, p.Loc))
	sv, ok := v.(VStruct)
	if !ok {
		return Term{}, false
	}
	var args []Term
	var sorts []Sort
	for i := 0; i < stt.NumFields(); i++ {
		f := x.force(st, sv.F[i])
		s, ok := f.(VScalar)
		if !ok {
			return Term{}, false
		}
		args = append(args, s.T)
		sorts = append(sorts, s.T.Sort)
	}
	name := "tojson." + typeShort(pt.Elem())
	fn := x.sym.Func(name, sorts, SBytes)
	x.structCodecs[name] = structCodec{typ: pt.Elem(), sorts: sorts}
	enc := App(SBytes, fn, args...)
	// ground instances of the codec axioms: decoding the encoding gives the fields back
	for i, s := range sorts {
		un := x.sym.Func(fmt.Sprintf("unjson.%s.%d", typeShort(pt.Elem()), i), []Sort{SBytes}, s)
		st.assume(Eq(App(s, un, enc), args[i]))
	}
	st.assume(Not(Eq(enc, Term{"json.null", SBytes})))
	return enc, true
}

type structCodec struct {
	typ   types.Type
	sorts []Sort
}

func (x *Exec) jsonUnmarshal(st *State, fr *Frame, c *callCtx) bool {
	data, ok := x.force(st, c.args[0]).(VBytes)
	if !ok {
		x.unsupported(st, "json.Unmarshal of non-bytes")
		return true
	}
	return x.jsonDecodeInto(st, fr, c, data, c.args[1])
}

// VBox is the heap content of an external reader/decoder object: the bytes it was created from.
type VBox struct{ V Value }

func (x *Exec) boxOf(st *State, v Value) (Value, bool) {
	v = x.force(st, v)
	if iv, ok := v.(VIface); ok && iv.Dyn != nil {
		v = x.force(st, iv.Val)
	}
	p, ok := v.(VPtr)
	if !ok || p.Loc == nil {
		return nil, false
	}
	b, ok := st.heap[p.Loc.Obj].(VBox)
	if !ok {
		return nil, false
	}
	return b.V, true
}

func (x *Exec) newBox(st *State, t types.Type, v Value) Value {
	obj := x.alloc(st, VBox{V: v})
	return VPtr{Nil: TFalse, Loc: &Loc{Obj: obj}, Typ: t}
}

func (x *Exec) jsonDecodeInto(st *State, fr *Frame, c *callCtx, data VBytes, targetV Value) bool {
	target := x.force(st, targetV)
	iv, ok := target.(VIface)
	if !ok || iv.Dyn == nil {
		x.unsupported(st, "json.Unmarshal into opaque target")
		return true
	}
	p, ok := x.force(st, iv.Val).(VPtr)
	if !ok || p.Loc == nil {
		x.unsupported(st, "json.Unmarshal into non pointer")
		return true
	}
	elemT := iv.Dyn.Underlying().(*types.Pointer).Elem()
	if _, isPP := elemT.Underlying().(*types.Pointer); isPP {
		// **T: whether a new object is allocated depends on the inner pointer being nil: decide it first (the
		// other state re-executes this call with the question settled)
		if cur, ok := x.force(st, x.load(st, p.Loc)).(VPtr); ok && !cur.Nil.IsTrue() && !cur.Nil.IsFalse() {
			ts, fs := x.fork(st, cur.Nil, "json.Unmarshal target pointer is nil")
			if fs != nil && fs != st {
				x.push(fs)
			}
			if ts == nil && fs == nil {
				return true
			}
		}
	}
	fail := x.sym.Fresh("json.unmarshal.fails", SBool)
	// failing path: target possibly partially written; we leave it unchanged (callers discard it)
	ts, fs := x.fork(st, fail, "json.Unmarshal fails")
	if fs != nil {
		// success path
		s := fs
		sf := s.top()
		x.decodeStore(s, p, elemT, data)
		if fs != st {
			if !s.dead {
				x.finishOn(s, sf, c, VIface{Nil: TTrue, Typ: errType()})
				x.push(s)
			}
		} else {
			x.finish(st, fr, c, VIface{Nil: TTrue, Typ: errType()})
		}
	}
	if ts != nil {
		x.finish(ts, ts.top(), c, x.freshErr(ts, "json.unmarshal.err", TFalse))
	}
	return true
}

// decodeStore writes the result of a successful json decode of data into *p (element type elemT).
func (x *Exec) decodeStore(s *State, p VPtr, elemT types.Type, data VBytes) {
	switch {
	case isStringMap(elemT):
		cur := x.force(s, x.load(s, p.Loc)).(VMap)
		isNull := Eq(data.B, Term{"json.null", SBytes})
		decoded := App(SMapSS, "jsonmap", data.B)
		if cur.Obj >= 0 && !cur.Nil.IsTrue() {
			// decoding into an existing map adds/overwrites keys; the code under
			// verification always passes an empty map, so merge == decoded when empty
			old := s.heap[cur.Obj].(MapSS).A
			merged := Ite(isNull, old, Ite(Eq(old, Term{"smap.empty", SMapSS}), decoded, App(SMapSS, "smap.merge", old, decoded)))
			s.heap[cur.Obj] = MapSS{A: merged}
		} else {
			obj := x.alloc(s, MapSS{A: Ite(isNull, Term{"smap.empty", SMapSS}, decoded)})
			x.store(s, p.Loc, VMap{Nil: isNull, Obj: obj, Typ: elemT})
		}
	default:
		if pt, isPtr := elemT.Underlying().(*types.Pointer); isPtr {
			// **T: null leaves/sets the inner pointer nil
			isNull := Eq(data.B, Term{"json.null", SBytes})
			x.callCounter++
			name := fmt.Sprintf("json.decoded!%d", x.callCounter)
			// encoding/json allocates a new T only when the inner pointer is nil; a non-nil inner pointer is
			// decoded into in place: the object is reused and everything that aliases it sees the new values
			// (jsonDecodeInto has decided the nil-ness of the inner pointer by a fork before getting here)
			if cur, ok := x.force(s, x.load(s, p.Loc)).(VPtr); ok && cur.Loc != nil && len(cur.Loc.Path) == 0 && !cur.Nil.IsTrue() && !x.feasible(s, cur.Nil) {
				s.heap[cur.Loc.Obj] = VLazy{Typ: pt.Elem(), Name: name}
				x.store(s, p.Loc, VPtr{Nil: isNull, Loc: cur.Loc, Typ: elemT})
				x.decodedFrom(s, cur.Loc.Obj, pt.Elem(), data.B, name)
				return
			}
			obj := x.alloc(s, VLazy{Typ: pt.Elem(), Name: name})
			x.store(s, p.Loc, VPtr{Nil: isNull, Loc: &Loc{Obj: obj}, Typ: elemT})
			x.decodedFrom(s, obj, pt.Elem(), data.B, name)
		} else if b, isBasic := elemT.Underlying().(*types.Basic); isBasic && b.Kind() == types.String {
			// a JSON string decodes to a function of the bytes (json.str), so that two decodes agree and a
			// contract can name the decoded text
			f := x.sym.Func("json.str", []Sort{SBytes}, SStr)
			x.store(s, p.Loc, VScalar{App(SStr, f, data.B)})
		} else {
			x.callCounter++
			name := fmt.Sprintf("json.decoded!%d", x.callCounter)
			x.store(s, p.Loc, VLazy{Typ: elemT, Name: name})
		}
	}
}

// unmarshalChain models util.UnmarshalChain(data, &a, &b, ...): the first target that decodes wins and
// the earlier ones are reset to their zero value; if none decodes an error is returned and all are zero.
func (x *Exec) unmarshalChain(st *State, fr *Frame, c *callCtx) bool {
	data, ok := x.force(st, c.args[0]).(VBytes)
	sl, ok2 := x.force(st, c.args[1]).(VSlice)
	if !ok || !ok2 || sl.Arr < 0 {
		x.unsupported(st, "UnmarshalChain with unknown targets")
		return true
	}
	arr, ok := st.heap[sl.Arr].(VArray)
	if !ok {
		x.unsupported(st, "UnmarshalChain with unknown targets")
		return true
	}
	type tgt struct {
		p     VPtr
		elemT types.Type
	}
	var tgts []tgt
	for _, e := range arr.E {
		iv, ok := x.force(st, e).(VIface)
		if !ok || iv.Dyn == nil {
			x.unsupported(st, "UnmarshalChain into opaque target")
			return true
		}
		p, ok := x.force(st, iv.Val).(VPtr)
		pt, ok2 := iv.Dyn.Underlying().(*types.Pointer)
		if !ok || !ok2 || p.Loc == nil {
			x.unsupported(st, "UnmarshalChain into non pointer")
			return true
		}
		tgts = append(tgts, tgt{p, pt.Elem()})
	}
	zero := func(s *State, t tgt) {
		x.store(s, t.p.Loc, x.zero(s, t.elemT))
	}
	cur := st
	for i, t := range tgts {
		fail := x.sym.Fresh(fmt.Sprintf("unmarshalchain.%d.fails", i), SBool)
		ts, fs := x.fork(cur, fail, fmt.Sprintf("UnmarshalChain target %d fails", i))
		if fs != nil {
			for _, e := range tgts[:i] {
				zero(fs, e)
			}
			x.decodeStore(fs, t.p, t.elemT, data)
			x.completeCall(fs, c, VIface{Nil: TTrue, Typ: errType()})
		}
		if ts == nil {
			return true
		}
		cur = ts
	}
	for _, e := range tgts {
		zero(cur, e)
	}
	x.completeCall(cur, c, x.freshErr(cur, "unmarshalchain.err", TFalse))
	return true
}

func (x *Exec) finishOn(st *State, fr *Frame, c *callCtx, v Value) {
	if c.ret != nil && v != nil {
		fr.env[c.ret] = v
	}
	if !c.defer_ {
		fr.ip++
	}
}

// decodedFrom relates a decoded flat struct to the bytes it was decoded from
// when those bytes were produced by the matching tojson.<T> encoder:
// fields(decode(tojson.T(a, b, c))) == (a, b, c).
func (x *Exec) decodedFrom(st *State, obj int, t types.Type, data Term, name string) {
	stt, ok := t.Underlying().(*types.Struct)
	if !ok {
		return
	}
	var fields []Value
	var sorts []Sort
	for i := 0; i < stt.NumFields(); i++ {
		s, ok := scalarSort(stt.Field(i).Type())
		if !ok {
			return
		}
		sorts = append(sorts, s)
		fields = append(fields, VScalar{App(s, x.sym.Func(fmt.Sprintf("unjson.%s.%d", typeShort(t), i), []Sort{SBytes}, s), data)})
	}
	st.heap[obj] = VStruct{fields}
	x.structCodecs["tojson."+typeShort(t)] = structCodec{typ: t, sorts: sorts}
}

func init() {
	// html/template and text/template as used by generatePromiseId: Parse may fail, Must panics
	// on a parse error, Execute writes subst(template, vars) -- for html/template with the
	// values escaped (esc is uninterpreted: the output need not embed the values unaltered).
	for _, pkg := range []string{"html/template", "text/template"} {
		pkg := pkg
		reg(pkg+".New", "template.New: fresh template", func(x *Exec, st *State, fr *Frame, c *callCtx) bool {
			obj := x.alloc(st, &TemplateObj{Pkg: pkg})
			return x.finish(st, fr, c, VPtr{Nil: TFalse, Loc: &Loc{Obj: obj}, Typ: c.ret.Type()})
		})
		reg("(*"+pkg+".Template).Parse", "Template.Parse: fails on malformed template text (client controlled)", func(x *Exec, st *State, fr *Frame, c *callCtx) bool {
			p, _ := x.force(st, c.args[0]).(VPtr)
			text := x.scalar(st, c.args[1])
			bad := App(SBool, x.sym.Func("template.malformed", []Sort{SStr}, SBool), text)
			ts, fs := x.fork(st, bad, "template text malformed")
			if ts != nil {
				x.completeCall(ts, c, VTuple{[]Value{VPtr{Nil: TTrue, Typ: p.Typ}, x.freshErr(ts, "template.parse.err", TFalse)}})
			}
			if fs != nil {
				if p.Loc != nil {
					fs.heap[p.Loc.Obj] = &TemplateObj{Pkg: pkg, Text: text, Parsed: true}
				}
				x.completeCall(fs, c, VTuple{[]Value{p, VIface{Nil: TTrue, Typ: errType()}}})
			}
			return true
		})
		reg(pkg+".Must", "template.Must panics when err != nil", func(x *Exec, st *State, fr *Frame, c *callCtx) bool {
			ev, _ := x.force(st, c.args[1]).(VIface)
			x.oblige(st, "panic", "template.Must panics on a template parse error", ev.Nil, c.common.Pos(), nil)
			if ev.Nil.IsFalse() {
				st.dead = true
				return true
			}
			st.assume(ev.Nil)
			return x.finish(st, fr, c, c.args[0])
		})
		reg("(*"+pkg+".Template).Execute", "Template.Execute writes subst(text, vars) (html/template: subst of escaped values); may fail", func(x *Exec, st *State, fr *Frame, c *callCtx) bool {
			p, _ := x.force(st, c.args[0]).(VPtr)
			if !x.derefCheck(st, p, "Execute on nil template", c.common.Pos()) {
				return true
			}
			to, _ := st.heap[p.Loc.Obj].(*TemplateObj)
			text := x.sym.Fresh("template.text", SStr)
			if to != nil && to.Text.S != "" {
				text = to.Text
			}
			// data: map[string]string
			var data Term = Term{"smap.empty", SMapSS}
			if iv, ok := x.force(st, c.args[2]).(VIface); ok {
				if m, ok := x.force(st, iv.Val).(VMap); ok && m.Obj >= 0 {
					if ms, ok := st.heap[m.Obj].(MapSS); ok {
						data = ms.A
					}
				}
			}
			fname := "template.subst"
			if pkg == "html/template" {
				fname = "template.subst.htmlescaped"
			}
			out := App(SStr, x.sym.Func(fname, []Sort{SStr, SMapSS}, SStr), text, data)
			// writer: *strings.Builder
			if wv, ok := x.force(st, c.args[1]).(VIface); ok {
				if wp, ok := x.force(st, wv.Val).(VPtr); ok && wp.Loc != nil {
					st.heap[wp.Loc.Obj] = &BuilderObj{S: out}
				}
			}
			fail := x.sym.Fresh("template.exec.fails", SBool)
			return x.finish(st, fr, c, x.freshErr(st, "template.exec.err", Not(fail)))
		})
	}
	reg("(*strings.Builder).String", "strings.Builder.String returns what was written", func(x *Exec, st *State, fr *Frame, c *callCtx) bool {
		p, _ := x.force(st, c.args[0]).(VPtr)
		if p.Loc != nil {
			if b, ok := st.heap[p.Loc.Obj].(*BuilderObj); ok {
				return x.finish(st, fr, c, VScalar{b.S})
			}
		}
		return x.finish(st, fr, c, VScalar{x.sym.Fresh("builder.string", SStr)})
	})
}

type TemplateObj struct {
	Pkg    string
	Text   Term
	Parsed bool
}

type BuilderObj struct{ S Term }

func init() {
	reg("errors.Is", "errors.Is(err, target): false for a nil err; otherwise identity of the two errors or an unknown wrapped match", func(x *Exec, st *State, fr *Frame, c *callCtx) bool {
		a, _ := x.force(st, c.args[0]).(VIface)
		b, _ := x.force(st, c.args[1]).(VIface)
		r := x.sym.Fresh("errors.is", SBool)
		if a.Nil.IsTrue() {
			return x.finish(st, fr, c, VScalar{b.Nil})
		}
		st.assume(Implies(And(a.Nil, Not(b.Nil)), Not(r)))
		if a.Id.S != "" && b.Id.S != "" {
			st.assume(Implies(And(Not(a.Nil), Not(b.Nil), Eq(a.Id, b.Id)), r))
		}
		return x.finish(st, fr, c, VScalar{r})
	})
	reg("errors.As", "errors.As(err, target): false for a nil err; otherwise unknown, the target then holds an arbitrary value", func(x *Exec, st *State, fr *Frame, c *callCtx) bool {
		a, _ := x.force(st, c.args[0]).(VIface)
		// the error's dynamic type is the target's type: As succeeds and the target holds that very value
		if tv, ok := x.force(st, c.args[1]).(VIface); ok && tv.Dyn != nil && a.Dyn != nil && a.Nil.IsFalse() {
			if pt, ok := tv.Dyn.Underlying().(*types.Pointer); ok && types.Identical(pt.Elem(), a.Dyn) {
				if p, ok := x.force(st, tv.Val).(VPtr); ok && p.Loc != nil {
					x.store(st, p.Loc, a.Val)
					return x.finish(st, fr, c, VScalar{TTrue})
				}
			}
		}
		// "assume-error-type <T>": every non-nil error reaching this function has dynamic type *T
		if x.contract != nil && a.Dyn == nil {
			if tv, ok := x.force(st, c.args[1]).(VIface); ok && tv.Dyn != nil {
				if pt, ok := tv.Dyn.Underlying().(*types.Pointer); ok {
					for _, d := range x.contract.Directives["assume-error-type"] {
						if strings.HasSuffix(types.TypeString(pt.Elem(), nil), strings.TrimSpace(d)) {
							if p, ok := x.force(st, tv.Val).(VPtr); ok && p.Loc != nil {
								x.callCounter++
								name := fmt.Sprintf("errors.as!%d", x.callCounter)
								if a.Id.S != "" {
									name = "errdyn." + a.Id.S
								}
								v := x.symbolic(st, pt.Elem(), name)
								if vp, ok := v.(VPtr); ok {
									st.assume(Implies(Not(a.Nil), Not(vp.Nil)))
								}
								x.store(st, p.Loc, v)
								x.notes["ASSUMED: every non-nil error reaching this function has dynamic type *"+strings.TrimSpace(d)+" (errors.As succeeds)"] = true
								return x.finish(st, fr, c, VScalar{Not(a.Nil)})
							}
						}
					}
				}
			}
		}
		r := x.sym.Fresh("errors.as", SBool)
		st.assume(Implies(a.Nil, Not(r)))
		// the target (a pointer inside an interface) receives an unknown value
		if tv, ok := x.force(st, c.args[1]).(VIface); ok && tv.Dyn != nil {
			if p, ok := x.force(st, tv.Val).(VPtr); ok && p.Loc != nil {
				if pt, ok := tv.Dyn.Underlying().(*types.Pointer); ok {
					x.callCounter++
					x.store(st, p.Loc, x.symbolic(st, pt.Elem(), fmt.Sprintf("errors.as!%d", x.callCounter)))
				}
			}
		}
		return x.finish(st, fr, c, VScalar{r})
	})
	reg("errors.Unwrap", "arbitrary error", noop)
	reg("errors.Join", "arbitrary error", noop)
	reg("time.Sleep", "no effect on verified state", noop)
	reg("os.Stat", "arbitrary", noop)
	reg("os.Remove", "removes the file (ghost: records the removal)", func(x *Exec, st *State, fr *Frame, c *callCtx) bool {
		if st.ghost != nil && st.ghost.db != nil {
			st.ghost.db.txLog = append(append([]string(nil), st.ghost.db.txLog...), "os.Remove")
		}
		return x.finish(st, fr, c, x.symbolicResult(st, c))
	})
}

func init() {
	reg("(error).Error", "err.Error(): an arbitrary string", func(x *Exec, st *State, fr *Frame, c *callCtx) bool {
		return x.finish(st, fr, c, VScalar{x.sym.Fresh("err.Error", SStr)})
	})
}

// labelValueOperands: the values packed into the variadic argument of a WithLabelValues call.
func labelValueOperands(common *ssa.CallCommon) []ssa.Value {
	if len(common.Args) == 0 {
		return nil
	}
	last := common.Args[len(common.Args)-1]
	sl, ok := last.(*ssa.Slice)
	if !ok {
		return nil
	}
	alloc, ok := sl.X.(*ssa.Alloc)
	if !ok || alloc.Referrers() == nil {
		return nil
	}
	var out []ssa.Value
	for _, r := range *alloc.Referrers() {
		ia, ok := r.(*ssa.IndexAddr)
		if !ok || ia.Referrers() == nil {
			continue
		}
		for _, rr := range *ia.Referrers() {
			if stv, ok := rr.(*ssa.Store); ok && stv.Addr == ssa.Value(ia) {
				out = append(out, stv.Val)
			}
		}
	}
	return out
}

// serverMadeString: a syntactic sufficient condition for "this string was not taken from a request".
func serverMadeString(v ssa.Value, depth int) bool {
	if depth > 6 {
		return false
	}
	switch t := v.(type) {
	case *ssa.Const:
		return true
	case *ssa.Call:
		if t.Call.IsInvoke() {
			return t.Call.Method.Name() == "String"
		}
		if f := t.Call.StaticCallee(); f != nil {
			switch {
			case f.Name() == "String", f.Name() == "boolToStatus":
				return true
			case f.Pkg != nil && f.Pkg.Pkg.Path() == "strconv" && (f.Name() == "Itoa" || f.Name() == "FormatInt"):
				return true
			}
		}
		return false
	case *ssa.Phi:
		for _, e := range t.Edges {
			if !serverMadeString(e, depth+1) {
				return false
			}
		}
		return true
	case *ssa.Lookup:
		// tags["name"], Tags["protocol"]: set by the server for every submission
		if k, ok := t.Index.(*ssa.Const); ok && k.Value != nil {
			ks := k.Value.ExactString()
			return ks == "\"name\"" || ks == "\"protocol\""
		}
		return false
	case *ssa.Extract:
		return serverMadeString(t.Tuple, depth+1)
	case *ssa.UnOp:
		return false
	}
	return false
}
