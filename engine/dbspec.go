package main

// Ghost-state vocabulary of the contract language, and construction of the
// store results a coroutine sees (from the spec functions, never from SQL).

import (
	"fmt"
	"go/types"
	"strings"
)

const taioPath = repoModule + "/internal/kernel/t_aio"

func (x *Exec) namedType(pkgPath, name string) types.Type {
	pp := x.prog.ppkg[pkgPath]
	if pp == nil || pp.Types == nil {
		return nil
	}
	obj := pp.Types.Scope().Lookup(name)
	if obj == nil {
		return nil
	}
	return obj.Type()
}

func structField(t types.Type, name string) (int, types.Type) {
	st, ok := t.Underlying().(*types.Struct)
	if !ok {
		return -1, nil
	}
	for i := 0; i < st.NumFields(); i++ {
		if st.Field(i).Name() == name {
			return i, st.Field(i).Type()
		}
	}
	return -1, nil
}

// colOfGo lowers a Go record field value to the option term of a column.
func (x *Exec) colOfGo(st *State, v Value, t types.Type, s Sort) (Term, bool) {
	v = x.force(st, v)
	switch vv := v.(type) {
	case VScalar:
		if optOf(vv.T.Sort) != s {
			return Term{}, false
		}
		return optSome(s, vv.T), true
	case VBytes:
		if s != SOptB {
			return Term{}, false
		}
		return Ite(vv.Nil, optNone(s), optSome(s, vv.B)), true
	case VPtr:
		if vv.Loc == nil || vv.Nil.IsTrue() {
			return optNone(s), true
		}
		inner, ok := x.force(st, x.load(st, vv.Loc)).(VScalar)
		if !ok || optOf(inner.T.Sort) != s {
			return Term{}, false
		}
		return Ite(vv.Nil, optNone(s), optSome(s, inner.T)), true
	}
	return Term{}, false
}

// goOfCol builds the Go value a Scan of column term col into a field of type t produces.
func (x *Exec) goOfCol(st *State, col Term, t types.Type) (Value, bool) {
	null := optIsNull(col)
	if isByteSlice(t) {
		if col.Sort != SOptB {
			return nil, false
		}
		return VBytes{Nil: null, B: Ite(null, Term{"bytes.empty", SBytes}, optVal(col))}, true
	}
	if pt, ok := t.Underlying().(*types.Pointer); ok {
		s, ok := scalarSort(pt.Elem())
		if !ok || optOf(s) != col.Sort {
			return nil, false
		}
		obj := x.alloc(st, VScalar{optVal(col)})
		return VPtr{Nil: null, Loc: &Loc{Obj: obj}, Typ: t}, true
	}
	s, ok := scalarSort(t)
	if !ok || optOf(s) != col.Sort {
		return nil, false
	}
	// a successful Scan implies the column was not NULL
	st.assume(Not(null))
	return VScalar{optVal(col)}, true
}

// recordFromRowNoAssume is recordFromRow for a row that may be absent: the
// non-NULL facts of a successful Scan are only assumed under presence.
func (x *Exec) recordFromRowNoAssume(st *State, recT types.Type, table *Table, row Term, cols []string) (Value, error) {
	n := len(st.pc)
	v, err := x.recordFromRow(st, recT, table, row, cols)
	if err != nil {
		return nil, err
	}
	added := append([]Term(nil), st.pc[n:]...)
	st.pc = st.pc[:n]
	present := rowPresent(table.Name, row)
	for _, a := range added {
		st.assume(Implies(present, a))
	}
	return v, nil
}

// recordFromRow builds a *XRecord object holding the given columns of row.
func (x *Exec) recordFromRow(st *State, recT types.Type, table *Table, row Term, cols []string) (Value, error) {
	stt := recT.Underlying().(*types.Struct)
	fields := make([]Value, stt.NumFields())
	for i := 0; i < stt.NumFields(); i++ {
		fields[i] = x.zero(st, stt.Field(i).Type())
	}
	for _, cn := range cols {
		c := table.col(cn)
		if c == nil {
			return nil, fmt.Errorf("table %s has no column %s", table.Name, cn)
		}
		found := false
		for i := 0; i < stt.NumFields(); i++ {
			if snake(stt.Field(i).Name()) == cn {
				v, ok := x.goOfCol(st, colSel(table.Name, cn, row, c.Sort), stt.Field(i).Type())
				if !ok {
					return nil, fmt.Errorf("record field %s does not fit column %s", stt.Field(i).Name(), cn)
				}
				fields[i] = v
				found = true
			}
		}
		if !found {
			return nil, fmt.Errorf("record type %s has no field for column %s", recT, cn)
		}
	}
	obj := x.alloc(st, VStruct{fields})
	return VPtr{Nil: TFalse, Loc: &Loc{Obj: obj}, Typ: types.NewPointer(recT)}, nil
}

// recordMatches states that the record (pointer value) carries exactly the
// listed columns of row and zero values elsewhere.
func (x *Exec) recordMatches(st *State, rec Value, recT types.Type, table *Table, row Term, cols []string) (Term, error) {
	p, ok := x.force(st, rec).(VPtr)
	if !ok || p.Loc == nil {
		return TFalse, nil
	}
	sv, ok := x.force(st, x.load(st, p.Loc)).(VStruct)
	if !ok {
		return TFalse, fmt.Errorf("record is not a struct")
	}
	stt := recT.Underlying().(*types.Struct)
	var cs []Term
	cs = append(cs, Not(p.Nil))
	for i := 0; i < stt.NumFields(); i++ {
		cn := snake(stt.Field(i).Name())
		inCols := false
		for _, c := range cols {
			if c == cn {
				inCols = true
			}
		}
		c := table.col(cn)
		if c == nil || !inCols {
			continue
		}
		t, ok := x.colOfGo(st, x.force(st, sv.F[i]), stt.Field(i).Type(), c.Sort)
		if !ok {
			return TFalse, fmt.Errorf("record field %s does not fit column %s", stt.Field(i).Name(), cn)
		}
		cs = append(cs, Eq(t, colSel(table.Name, cn, row, c.Sort)))
	}
	return And(cs...), nil
}

func (g *GhostDB) recType(name string) types.Type {
	for _, p := range []string{"pkg/promise", "pkg/schedule", "pkg/task", "pkg/lock"} {
		if t := g.x.namedType(repoModule+"/"+p, name); t != nil {
			return t
		}
	}
	return nil
}

// --------------------------------------------------------------------------
// contract builtins

func (g *GhostDB) dbBuiltin(env *SpecEnv, st *State, name string, args []TV) (TV, bool) {
	x := g.x
	boolT := types.Typ[types.Bool]
	if tv, ok := g.linBuiltin(env, st, name, args); ok {
		return tv, true
	}
	if _, isView := viewSpecs[name]; isView && len(args) == 1 {
		return g.viewOf(env, st, name, args[0]), true
	}
	switch name {
	case "json":
		if len(args) != 1 {
			return TV{}, false
		}
		m, ok := x.force(st, args[0].V).(VMap)
		if !ok || !isStringMap(m.Typ) {
			env.fail("json() of a non string map")
		}
		a := Term{"smap.empty", SMapSS}
		if m.Obj >= 0 {
			a = env.heapOf()[m.Obj].(MapSS).A
		}
		enc := App(SBytes, "tojson", a)
		st.assume(Eq(App(SMapSS, "jsonmap", enc), a))
		st.assume(Not(Eq(enc, Term{"json.null", SBytes})))
		return TV{specTerm{enc}, nil}, true
	case "mesg":
		p, ok := x.force(st, args[0].V).(VPtr)
		if !ok || p.Loc == nil {
			return TV{specTerm{x.sym.Fresh("mesg.nil", SBytes)}, nil}, true
		}
		t, ok := x.structJSON(st, p, args[0].T)
		if !ok {
			env.fail("mesg() of a value that is not a flat struct")
		}
		return TV{specTerm{t}, nil}, true
	case "mask":
		return TV{VScalar{g.maskOf(env, st, args[0], nil)}, types.Typ[types.Int]}, true
	case "maskprefix":
		n := env.term(args[1])
		return TV{VScalar{g.maskOf(env, st, args[0], &n)}, types.Typ[types.Int]}, true
	case "db_is_cmd":
		t, err := g.dbIsCmd(st, args[0])
		if err != nil {
			env.fail("%v", err)
		}
		return TV{VScalar{t}, boolT}, true
	case "result_is_cmd":
		t, err := g.resultIsCmd(st, args[0], args[1])
		if err != nil {
			env.fail("%v", err)
		}
		return TV{VScalar{t}, boolT}, true
	case "db_unchanged":
		var cs []Term
		for _, tn := range g.schema.Order {
			if tn == "migrations" {
				continue
			}
			k0 := x.sym.Named("k0."+tn, SStr)
			cs = append(cs, Eq(g.rowAt(st, g.cur[tn], k0), g.rowAt(st, g.entry[tn], k0)))
		}
		return TV{VScalar{And(cs...)}, boolT}, true
	case "txlog":
		return TV{VScalar{x.sym.StrLit(strings.Join(g.txLog, ","))}, types.Typ[types.String]}, true
	case "sqlis":
		// sqlis(stmt, "CONST"): the statement pointer is nil or was prepared from that constant
		pv, ok := x.force(st, args[0].V).(VPtr)
		cname, ok2 := x.sym.LitValue(env.term(args[1]).S)
		if !ok || !ok2 {
			env.fail("sqlis(stmt, \"CONSTANT\")")
		}
		pkgPath := ""
		if len(st.frames) > 0 && st.frames[0].fn.Pkg != nil {
			pkgPath = st.frames[0].fn.Pkg.Pkg.Path()
		}
		want, okc := x.prog.constString(pkgPath, cname)
		if !okc {
			env.fail("no string constant %s", cname)
		}
		if pv.Loc == nil || pv.Nil.IsTrue() {
			return TV{VScalar{TTrue}, boolT}, true
		}
		switch o := st.heap[pv.Loc.Obj].(type) {
		case *SQLStmtObj:
			return TV{VScalar{Or(pv.Nil, BoolLit(o.Text == want))}, boolT}, true
		case VLazy:
			if env.assumeMode {
				// a havocked statement variable: the invariant tells which statement it holds
				if stmts, err := ParseSQL(want); err == nil && len(stmts) == 1 {
					st.heap[pv.Loc.Obj] = &SQLStmtObj{Text: want, Stmt: stmts[0], Name: cname}
					return TV{VScalar{TTrue}, boolT}, true
				}
			}
		}
		return TV{VScalar{pv.Nil}, boolT}, true
	case "now":
		return TV{VScalar{g.now}, types.Typ[types.Int64]}, true
	case "scanned":
		// scanned(rows, record, "Kind"): the record carries exactly the columns the read command Kind
		// delivers, taken from the row the last rows.Next() produced (every column under its own name)
		if len(args) != 3 {
			return TV{}, false
		}
		kindName, ok := g.x.sym.LitValue(env.term(args[2]).S)
		if !ok {
			return TV{}, false
		}
		cs := cmdSpecByKind(kindName)
		ro, _ := g.x.rowsObj(st, args[0].V)
		if cs == nil || cs.Read == nil || ro == nil || ro.CurKey.S == "" {
			return TV{VScalar{TFalse}, boolT}, true
		}
		table := g.schema.Tables[cs.Read.Table]
		if table == nil || ro.Stmt.Select == nil || ro.Stmt.Select.From != table.Name {
			return TV{VScalar{TFalse}, boolT}, true
		}
		pt, ok := args[1].T.Underlying().(*types.Pointer)
		if !ok {
			return TV{}, false
		}
		row := g.rowAt(st, ro.Snap[table.Name], ro.CurKey)
		t, err := g.x.recordMatches(st, args[1].V, pt.Elem(), table, row, cs.Read.Cols)
		if err != nil {
			env.fail("%v", err)
		}
		return TV{VScalar{t}, boolT}, true
	case "now0":
		// the clock value the coroutine observed first (at entry)
		if g.now0.S != "" {
			return TV{VScalar{g.now0}, types.Typ[types.Int64]}, true
		}
		return TV{VScalar{g.now}, types.Typ[types.Int64]}, true
	}
	return TV{}, false
}

// maskOf folds a slice of state flags with bitwise or. For slices of symbolic
// length it is the function maskprefix.<id>(n) whose recursive definition is
// instantiated at the indices the path uses.
func (g *GhostDB) maskOf(env *SpecEnv, st *State, sl TV, upto *Term) Term {
	x := g.x
	s, ok := x.force(st, sl.V).(VSlice)
	if !ok {
		env.fail("mask() of a non slice")
	}
	if s.Arr < 0 {
		return IntLit(0)
	}
	if arr, ok := env.heapOf()[s.Arr].(VArray); ok && upto == nil {
		n, _ := isIntLit(s.Len)
		m := IntLit(0)
		for i := 0; i < int(n); i++ {
			m = bitop("bor", m, x.scalar(st, arr.E[s.Lo+i]))
		}
		return m
	}
	f := x.sym.Func(fmt.Sprintf("maskprefix.%d", s.Arr), []Sort{SInt}, SInt)
	n := s.Len
	if upto != nil {
		n = *upto
	}
	t := App(SInt, f, n)
	st.assume(Eq(App(SInt, f, IntLit(0)), IntLit(0)))
	// definition at n: prefix(n) = bor(prefix(n-1), elem[n-1]) when n >= 1
	if _, isAbs := st.heap[s.Arr].(*VAbsArr); isAbs {
		nm1 := Sub(n, IntLit(1))
		if v, isLit := isIntLit(n); !isLit || v >= 1 {
			k, _ := x.absCell(st, s.Arr, nm1)
			cell := st.heap[s.Arr].(*VAbsArr).Cells[k].Val
			ev := x.scalar(st, x.force(st, cell))
			st.assume(Implies(And(Ge(n, IntLit(1)), Le(n, s.Len)), Eq(t, bitop("bor", App(SInt, f, nm1), ev))))
		}
	}
	return t
}

// dbIsCmd: the database after the handler equals the spec effect of cmd on
// the database at entry, for every table, at an arbitrary key (skolem k0).
func (g *GhostDB) dbIsCmd(st *State, cmd TV) (Term, error) {
	cs := cmdSpecForType(cmd.T)
	if cs == nil {
		return TFalse, fmt.Errorf("no command spec for %s", cmd.T)
	}
	ce, err := g.evalCmd(st, cs, cmd, g.entry)
	if err != nil {
		return TFalse, err
	}
	var goals []Term
	for _, tn := range g.schema.Order {
		if tn == "migrations" {
			continue
		}
		k0 := g.x.sym.Named("k0."+tn, SStr)
		final := g.rowAt(st, g.cur[tn], k0)
		init := g.rowAt(st, g.entry[tn], k0)
		expected := init
		for i, eff := range cs.Effects {
			if eff.Table == tn {
				expected = g.effectAt(st, eff, ce.effArgs[i], ce.effCross[i], g.entry, k0, init)
			}
		}
		goals = append(goals, Eq(final, expected))
	}
	return And(goals...), nil
}

func (g *GhostDB) resultIsCmd(st *State, cmd TV, res TV) (Term, error) {
	x := g.x
	cs := cmdSpecForType(cmd.T)
	if cs == nil {
		return TFalse, fmt.Errorf("no command spec for %s", cmd.T)
	}
	env := &SpecEnv{x: x, st: st, vars: map[string]TV{"cmd": cmd, "result": res}}
	env.extra = func(name string, args []TV) (TV, bool) { return g.specBuiltin(env, st, name, args) }
	kind, ok := env.lookupPkgConst("t_aio", cs.Kind)
	if !ok {
		return TFalse, fmt.Errorf("no StoreKind %s", cs.Kind)
	}
	kindT, err := env.EvalBool("result != nil && result." + cs.resField() + " != nil")
	if err != nil {
		return TFalse, err
	}
	kv, err := env.EvalValue("result.Kind")
	if err != nil {
		return TFalse, err
	}
	goals := []Term{kindT, Eq(env.term(kv), env.term(kind))}
	if cs.Read != nil {
		t, err := g.readResultIs(st, env, cs)
		if err != nil {
			return TFalse, err
		}
		return And(append(goals, t)...), nil
	}
	ce, err := g.evalCmd(st, cs, cmd, g.entry)
	if err != nil {
		return TFalse, err
	}
	for i, rs := range cs.Rows {
		fv, err := env.EvalValue("result." + cs.resField() + "." + rs.ResField)
		if err != nil {
			return TFalse, err
		}
		ft := env.term(fv)
		if rs.Fn != "" {
			goals = append(goals, Eq(ft, ce.rowsTerms[i]))
			continue
		}
		// set statement: the reported count is the statement's count, and the
		// statement's hit predicate is the spec predicate (pointwise, skolem key)
		sh := g.lastSetHit
		if sh == nil || sh.table.Name != rs.CountTable {
			goals = append(goals, TFalse)
			x.notes["set-valued rows spec for "+cs.Kind+" found no set statement on "+rs.CountTable] = true
			continue
		}
		if sh.pre != g.entry[rs.CountTable] {
			goals = append(goals, TFalse)
			x.notes["set statement of "+cs.Kind+" does not read the entry version of "+rs.CountTable] = true
			continue
		}
		goals = append(goals, Eq(ft, sh.rows))
		k0 := x.sym.Named("k0.count."+rs.CountTable, SStr)
		row := g.rowAt(st, sh.pre, k0)
		cargs, err := g.evalArgs(g.cmdEnv(st, cmd), rs.CountArgs)
		if err != nil {
			return TFalse, err
		}
		specHit := App(SBool, rs.CountPred, append([]Term{row}, cargs...)...)
		goals = append(goals, Eq(sh.hit(st, k0, row), specHit))
	}
	return And(goals...), nil
}

// readResultIs: keyed reads return 0 or 1 record carrying the row's columns.
func (g *GhostDB) readResultIs(st *State, env *SpecEnv, cs *CmdSpec) (Term, error) {
	x := g.x
	rd := cs.Read
	table := g.schema.Tables[rd.Table]
	recT := g.recType(rd.RecType)
	if recT == nil {
		return TFalse, fmt.Errorf("record type %s not found", rd.RecType)
	}
	base := "result." + cs.resField()
	rr, err := env.EvalValue(base + ".RowsReturned")
	if err != nil {
		return TFalse, err
	}
	recs, err := env.EvalValue(base + ".Records")
	if err != nil {
		return TFalse, err
	}
	sl, ok := x.force(st, recs.V).(VSlice)
	if !ok {
		return TFalse, fmt.Errorf("Records is not a slice")
	}
	if rd.Key != "" {
		kt, err := g.evalArgs(env, []string{rd.Key})
		if err != nil {
			return TFalse, err
		}
		g.noteKey(kt[0])
		row := g.rowAt(st, g.entry[rd.Table], kt[0])
		present := rowPresent(rd.Table, row)
		goals := []Term{Eq(env.term(rr), Ite(present, IntLit(1), IntLit(0))), Eq(sl.Len, env.term(rr))}
		// when present, Records[0] matches
		if !Eq(sl.Len, IntLit(1)).IsFalse() {
			r0, err := env.EvalValue(base + ".Records[0]")
			if err == nil {
				m, err := x.recordMatches(st, r0.V, recT, table, row, rd.Cols)
				if err != nil {
					return TFalse, err
				}
				goals = append(goals, Implies(present, m))
			}
		} else {
			goals = append(goals, Not(present))
		}
		return And(goals...), nil
	}
	return TFalse, fmt.Errorf("set reads are specified by loop invariants (see rows_match)")
}

var _ = strings.TrimSpace
