package main

// Stand-alone lemma queries per property (pure SMT over the spec functions).

func extraObligations(prog *Program, prop, tier string) []*lemmaQuery {
	return nil
}
