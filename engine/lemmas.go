package main

// Stand-alone obligations per property that are not attached to one Go function:
//   - structural obligations on the SQL text of the search statements (C14): the statements are string
//     templates (fmt.Sprintf with a tag-filter hole), so they are not executed symbolically; what the paging
//     argument needs from them is their shape, decided on the parsed statement of the current source;
//   - the paging lemma (C14): pure SMT over an abstract sorted store.

import (
	"fmt"
	"go/constant"
	"go/token"
	"go/types"
	"reflect"
	"regexp"
	"sort"
	"strconv"
	"strings"
	"time"

	"golang.org/x/tools/go/ssa"
)

func constStringVal2(c *ssa.Const) (string, bool) {
	if c.Value == nil || c.Value.Kind() != constant.String {
		return "", false
	}
	return constant.StringVal(c.Value), true
}

func structural(name, where string, ok bool, detail string) *lemmaQuery {
	st := "unsat"
	if !ok {
		st = "sat"
	}
	return &lemmaQuery{name: name, where: where, res: &SolveResult{Status: st, Solver: "sql-structure", Raw: detail, Model: detail}}
}

func isCol(e SQLExpr, name string) bool {
	c, ok := e.(SQLCol)
	return ok && c.Name == name
}

func isParam(e SQLExpr) bool {
	_, ok := e.(SQLParam)
	return ok
}

// searchShape checks one search statement: rows strictly below the cursor, newest first, page size bound.
func searchShape(prog *Program, pkgPath, constName string, wantState bool) []*lemmaQuery {
	where := strings.TrimPrefix(pkgPath, repoModule+"/") + ":" + constName
	text, ok := prog.constString(pkgPath, constName)
	if !ok {
		return []*lemmaQuery{structural("search statement "+constName+" exists", where, false, "constant not found")}
	}
	stmts, err := ParseSQL(text)
	if err != nil || len(stmts) != 1 || stmts[0].Select == nil {
		return []*lemmaQuery{structural("search statement "+constName+" is a SELECT of the verified SQL subset", where, false, fmt.Sprint(err))}
	}
	sel := stmts[0].Select
	var out []*lemmaQuery
	cs := conjuncts(sel.Where)
	// (p IS NULL OR sort_id < p): strictly older than the cursor
	cursorOK, likeOK, stateOK := false, false, false
	for _, c := range cs {
		b, ok := c.(SQLBin)
		if !ok {
			continue
		}
		switch strings.ToLower(b.Op) {
		case "or":
			if r, ok := b.R.(SQLBin); ok && r.Op == "<" && isCol(r.L, "sort_id") && isParam(r.R) {
				cursorOK = true
			}
		case "like":
			if isCol(b.L, "id") && isParam(b.R) {
				likeOK = true
			}
		case "!=":
			if l, ok := b.L.(SQLBin); ok && l.Op == "&" && isCol(l.L, "state") && isParam(l.R) {
				if z, ok := b.R.(SQLInt); ok && z.V == 0 {
					stateOK = true
				}
			}
		}
	}
	out = append(out, structural(constName+": a page holds only rows strictly older than the cursor (… OR sort_id < ?)", where, cursorOK, text))
	out = append(out, structural(constName+": rows are filtered by the id pattern (id LIKE ?, no ESCAPE clause: the front ends translate * to % and escape nothing)", where, likeOK, text))
	if wantState {
		out = append(out, structural(constName+": rows are filtered by the state mask (state & ? != 0)", where, stateOK, text))
	}
	orderOK := len(sel.OrderBy) == 1 && sel.OrderBy[0].Col.Name == "sort_id" && sel.OrderBy[0].Desc
	out = append(out, structural(constName+": newest first (ORDER BY sort_id DESC, nothing else)", where, orderOK, text))
	out = append(out, structural(constName+": the page size is a bound parameter (LIMIT ?)", where, sel.Limit != nil && isParam(sel.Limit), text))
	sortSel := false
	for _, pr := range sel.Proj {
		if isCol(pr, "sort_id") {
			sortSel = true
		}
	}
	out = append(out, structural(constName+": the sort id of every row is returned (it becomes the cursor)", where, sortSel, text))
	return out
}

// enqueueableShape (C08, C17): the dispatch query selects only unclaimed (init) tasks, none whose root promise
// has another task recorded as enqueued or claimed, and one task per root promise. The sibling test is a
// correlated subquery, which the SQL semantics of the engine treats as an uninterpreted predicate, so its
// shape is decided on the parsed statement.
func enqueueableShape(prog *Program, pkgPath string) []*lemmaQuery {
	const constName = "TASK_SELECT_ENQUEUEABLE_STATEMENT"
	where := strings.TrimPrefix(pkgPath, repoModule+"/") + ":" + constName
	text, ok := prog.constString(pkgPath, constName)
	if !ok {
		return []*lemmaQuery{structural("statement "+constName+" exists", where, false, "constant not found")}
	}
	stmts, err := ParseSQL(text)
	if err != nil || len(stmts) != 1 || stmts[0].Select == nil {
		return []*lemmaQuery{structural(constName+" is a SELECT of the verified SQL subset", where, false, fmt.Sprint(err))}
	}
	sel := stmts[0].Select
	isInt := func(e SQLExpr, v int64) bool { z, ok := e.(SQLInt); return ok && z.V == v }
	initOnly, siblings := false, false
	for _, c := range conjuncts(sel.Where) {
		switch n := c.(type) {
		case SQLBin:
			if n.Op == "=" && isCol(n.L, "state") && isInt(n.R, 1) {
				initOnly = true
			}
		case SQLExists:
			if !n.Neg || n.Sel == nil || n.Sel.From != sel.From {
				continue
			}
			sameRoot, busy := false, false
			for _, ic := range conjuncts(n.Sel.Where) {
				switch in := ic.(type) {
				case SQLBin:
					l, lok := in.L.(SQLCol)
					r, rok := in.R.(SQLCol)
					if in.Op == "=" && lok && rok && l.Name == "root_promise_id" && r.Name == "root_promise_id" && l.Table != r.Table {
						sameRoot = true
					}
				case SQLIn:
					if c, ok := in.E.(SQLCol); ok && c.Name == "state" && !in.Neg && len(in.List) == 2 {
						if (isInt(in.List[0], 2) && isInt(in.List[1], 4)) || (isInt(in.List[0], 4) && isInt(in.List[1], 2)) {
							busy = true
						}
					}
				}
			}
			if sameRoot && busy && len(conjuncts(n.Sel.Where)) == 2 {
				siblings = true
			}
		}
	}
	onePerRoot := (len(sel.GroupBy) == 1 && sel.GroupBy[0] == "root_promise_id") || (len(sel.DistinctOn) == 1 && sel.DistinctOn[0] == "root_promise_id")
	return []*lemmaQuery{
		structural(constName+": only unclaimed tasks are selected (state = 1)", where, initOnly && len(conjuncts(sel.Where)) == 2, text),
		structural(constName+": no task whose root promise has a task recorded as enqueued or claimed (NOT EXISTS sibling with state IN (2, 4))", where, siblings, text),
		structural(constName+": one task per root promise (GROUP BY / DISTINCT ON root_promise_id)", where, onePerRoot, text),
		structural(constName+": the batch size is a bound parameter (LIMIT ?)", where, sel.Limit != nil && isParam(sel.Limit), text),
	}
}

// scheduleSweepShape (C10, C17): the sweep that reads due schedules takes them oldest pending occurrence first
// (ORDER BY next_run_time ASC before anything else), so that under a batch limit no due schedule is passed over
// for ever by schedules created before it.
func scheduleSweepShape(prog *Program, pkgPath string) []*lemmaQuery {
	const constName = "SCHEDULE_SELECT_ALL_STATEMENT"
	where := strings.TrimPrefix(pkgPath, repoModule+"/") + ":" + constName
	text, ok := prog.constString(pkgPath, constName)
	if !ok {
		return []*lemmaQuery{structural("statement "+constName+" exists", where, false, "constant not found")}
	}
	stmts, err := ParseSQL(text)
	if err != nil || len(stmts) != 1 || stmts[0].Select == nil {
		return []*lemmaQuery{structural(constName+" is a SELECT of the verified SQL subset", where, false, fmt.Sprint(err))}
	}
	sel := stmts[0].Select
	orderOK := len(sel.OrderBy) >= 1 && sel.OrderBy[0].Col.Name == "next_run_time" && !sel.OrderBy[0].Desc
	return []*lemmaQuery{
		structural(constName+": due schedules are read oldest pending occurrence first (ORDER BY next_run_time ASC, ...)", where, orderOK, text),
		structural(constName+": the batch size is a bound parameter (LIMIT ?)", where, sel.Limit != nil && isParam(sel.Limit), text),
	}
}

// derivedIdLemmas (C05): the ids the server derives for registrations must be injective in the client ids
// they are built from, otherwise two different registrations share one row. The format literal is read
// from the current source of the deriving function; the query is pure string theory.
func derivedIdLemmas(prog *Program) []*lemmaQuery {
	var out []*lemmaQuery
	for _, fname := range []string{"callbackId", "subscriptionId"} {
		key := "internal/app/coroutines:" + fname
		fn := prog.lookupFunc(key)
		if fn == nil {
			continue
		}
		format := ""
		nargs := 0
		for _, b := range fn.Blocks {
			for _, in := range b.Instrs {
				call, ok := in.(*ssa.Call)
				if !ok || call.Call.StaticCallee() == nil || calleeName(call.Call.StaticCallee()) != "fmt.Sprintf" {
					continue
				}
				if c, ok := call.Call.Args[0].(*ssa.Const); ok {
					if s, ok := constStringVal2(c); ok {
						format = s
						nargs = strings.Count(s, "%s")
					}
				}
			}
		}
		where := key
		if format == "" || nargs != len(fn.Params) || nargs == 0 {
			out = append(out, structural("the id derived by "+fname+" is fmt.Sprintf of a constant format over all of its arguments", where, false, "format not recognised"))
			continue
		}
		parts := strings.Split(format, "%s")
		mk := func(vars []string) string {
			var b strings.Builder
			b.WriteString("(str.++")
			for i, p := range parts {
				if p != "" {
					fmt.Fprintf(&b, " %q", p)
				}
				if i < len(vars) {
					b.WriteString(" " + vars[i])
				}
			}
			b.WriteString(")")
			return b.String()
		}
		var xs, ys, eqs []string
		decl := ""
		for i := 0; i < nargs; i++ {
			xs = append(xs, fmt.Sprintf("x%d", i))
			ys = append(ys, fmt.Sprintf("y%d", i))
			decl += fmt.Sprintf("(declare-const x%d String)\n(declare-const y%d String)\n", i, i)
			eqs = append(eqs, fmt.Sprintf("(= x%d y%d)", i, i))
		}
		goal := fmt.Sprintf("(=> (= %s %s) (and %s))", mk(xs), mk(ys), strings.Join(eqs, " "))
		out = append(out, &lemmaQuery{name: "the id derived by " + fname + " (" + format + ") is injective in its arguments", where: where,
			q: &Query{Name: "derivedid." + fname, Prelude: decl, Goal: Term{goal, SBool}, Comment: "derived id injectivity: " + format}})
	}
	return out
}

// schemaLemmas (C16, C17, C20): every column is declared with a type of exact storage (TEXT, BLOB, INTEGER
// and the Postgres spellings): a type with NUMERIC affinity ("STRING", "NUMERIC", ...) makes SQLite rewrite
// client text that looks like a number.
func schemaLemmas(prog *Program) []*lemmaQuery {
	ok := prog.schema != nil && len(prog.schema.TypeProblems) == 0
	detail := ""
	if prog.schema != nil {
		detail = strings.Join(prog.schema.TypeProblems, "; ")
	}
	return []*lemmaQuery{structural("every column of CREATE_TABLE_STATEMENT is declared TEXT, BLOB or INTEGER with binary collation (exact storage and comparison), sort ids are AUTOINCREMENT (never reused), and the script sets no pragma that switches off journalling, synchronisation or isolation", "internal/app/subsystems/aio/store/sqlite:CREATE_TABLE_STATEMENT", ok, detail)}
}

// schemaAgreementLemmas (C17): the Postgres handlers are verified against the table model built from the SQLite
// schema, so the Postgres schema must declare the same tables with the same columns, of the same kind of
// type (text / integer / bytes), the same defaults and the same uniqueness.
func schemaAgreementLemmas(prog *Program) []*lemmaQuery {
	const where = "internal/app/subsystems/aio/store/postgres:CREATE_TABLE_STATEMENT"
	name := "the Postgres schema declares the same tables and columns (type kind, default, uniqueness) as the SQLite schema"
	ddl, ok := prog.constString(repoModule+"/internal/app/subsystems/aio/store/postgres", "CREATE_TABLE_STATEMENT")
	if !ok {
		return []*lemmaQuery{structural(name, where, false, "constant not found")}
	}
	pg, err := SchemaFromDDL(ddl)
	if err != nil {
		return []*lemmaQuery{structural(name, where, false, "postgres schema: "+err.Error())}
	}
	var diffs []string
	for _, tn := range prog.schema.Order {
		a, b := prog.schema.Tables[tn], pg.Tables[tn]
		if b == nil {
			diffs = append(diffs, "table "+tn+" missing")
			continue
		}
		if len(a.Cols) != len(b.Cols) {
			diffs = append(diffs, fmt.Sprintf("table %s: %d columns vs %d", tn, len(a.Cols), len(b.Cols)))
		}
		for _, ca := range a.Cols {
			cb := b.col(ca.Name)
			if cb == nil {
				diffs = append(diffs, tn+"."+ca.Name+" missing")
				continue
			}
			if ca.Sort != cb.Sort {
				diffs = append(diffs, fmt.Sprintf("%s.%s: %s vs %s", tn, ca.Name, ca.SQLType, cb.SQLType))
			}
			da, db := "none", "none"
			if ca.Default != nil {
				da = fmt.Sprint(*ca.Default)
			}
			if cb.Default != nil {
				db = fmt.Sprint(*cb.Default)
			}
			if da != db {
				diffs = append(diffs, fmt.Sprintf("%s.%s: DEFAULT %s vs %s", tn, ca.Name, da, db))
			}
			// a generated sort id is unique by construction in both dialects (AUTOINCREMENT primary key / SERIAL)
			if ca.AutoInc != cb.AutoInc || (!ca.AutoInc && ca.Unique != cb.Unique) {
				diffs = append(diffs, fmt.Sprintf("%s.%s: uniqueness / auto increment differ", tn, ca.Name))
			}
		}
	}
	for _, tn := range pg.Order {
		if prog.schema.Tables[tn] == nil {
			diffs = append(diffs, "extra table "+tn)
		}
	}
	diffs = append(diffs, pg.TypeProblems...)
	return []*lemmaQuery{structural(name, where, len(diffs) == 0, strings.Join(diffs, "; "))}
}

// resetDefaultLemmas (C06): the stores delete their data on Stop only when Reset is configured, and the
// flag's declared default (struct tag read by the configuration loader) is false for both backends.
func resetDefaultLemmas(prog *Program) []*lemmaQuery {
	var out []*lemmaQuery
	for _, be := range []string{"sqlite", "postgres"} {
		pkg := repoModule + "/internal/app/subsystems/aio/store/" + be
		where := "internal/app/subsystems/aio/store/" + be + ":Config.Reset"
		ok := false
		detail := "no Config.Reset field"
		if pp := prog.ppkg[pkg]; pp != nil && pp.Types != nil {
			if obj := pp.Types.Scope().Lookup("Config"); obj != nil {
				if st, isStruct := obj.Type().Underlying().(*types.Struct); isStruct {
					for i := 0; i < st.NumFields(); i++ {
						if st.Field(i).Name() == "Reset" {
							tag := reflect.StructTag(st.Tag(i))
							detail = st.Tag(i)
							ok = tag.Get("default") == "false"
						}
					}
				}
			}
		}
		out = append(out, structural("the "+be+" store keeps its data on shutdown by default (Config.Reset default:\"false\")", where, ok, detail))
	}
	// the default SQLite database is a file, not an in-memory database that dies with the process
	{
		pkg := repoModule + "/internal/app/subsystems/aio/store/sqlite"
		ok := false
		detail := "no Config.Path field"
		if pp := prog.ppkg[pkg]; pp != nil && pp.Types != nil {
			if obj := pp.Types.Scope().Lookup("Config"); obj != nil {
				if st, isStruct := obj.Type().Underlying().(*types.Struct); isStruct {
					for i := 0; i < st.NumFields(); i++ {
						if st.Field(i).Name() == "Path" {
							d := reflect.StructTag(st.Tag(i)).Get("default")
							detail = st.Tag(i)
							ok = d != "" && !strings.Contains(d, ":memory:") && !strings.Contains(d, "mode=memory") && !strings.HasPrefix(d, "file::")
						}
					}
				}
			}
		}
		out = append(out, structural("the sqlite store's default database is a file on disk (Config.Path default is not an in-memory database)", "internal/app/subsystems/aio/store/sqlite:Config.Path", ok, detail))
	}
	return out
}

// defaultTagLemmas: cmd/config.bind turns the `default:"..."` tag of every configuration field into the flag's
// default with the parser of the field's type and DISCARDS the parse error (v, _ := time.ParseDuration(value)),
// so a default that does not parse silently becomes zero (a duration written without a unit, "1000", is a zero
// timeout). One structural obligation per tagged field of the repository's configuration structs: the default
// parses with the parser bind uses for that type (both ends of a "lo:hi" range default).
func defaultTagLemmas(prog *Program) []*lemmaQuery {
	var out []*lemmaQuery
	var paths []string
	for path := range prog.ppkg {
		if strings.HasPrefix(path, repoModule+"/") || path == repoModule {
			paths = append(paths, path)
		}
	}
	sort.Strings(paths)
	for _, path := range paths {
		pp := prog.ppkg[path]
		if pp == nil || pp.Types == nil {
			continue
		}
		scope := pp.Types.Scope()
		for _, name := range scope.Names() {
			tn, ok := scope.Lookup(name).(*types.TypeName)
			if !ok {
				continue
			}
			st, ok := tn.Type().Underlying().(*types.Struct)
			if !ok {
				continue
			}
			for i := 0; i < st.NumFields(); i++ {
				tag := reflect.StructTag(st.Tag(i))
				d, has := tag.Lookup("default")
				if !has || tag.Get("flag") == "" {
					continue
				}
				ft := st.Field(i).Type()
				kind := ""
				if named, ok := ft.(*types.Named); ok && named.Obj().Pkg() != nil && named.Obj().Pkg().Path() == "time" && named.Obj().Name() == "Duration" {
					kind = "duration"
				} else if b, ok := ft.Underlying().(*types.Basic); ok {
					switch b.Kind() {
					case types.Int:
						kind = "int"
					case types.Int64:
						kind = "int64"
					case types.Float64:
						kind = "float64"
					case types.Bool:
						kind = "bool"
					}
				}
				if kind == "" {
					continue
				}
				parts := []string{d}
				if strings.Contains(d, ":") && kind != "bool" {
					parts = strings.SplitN(d, ":", 2)
				}
				good := true
				for _, part := range parts {
					var err error
					switch kind {
					case "duration":
						_, err = time.ParseDuration(part)
					case "int":
						_, err = strconv.Atoi(part)
					case "int64":
						_, err = strconv.ParseInt(part, 10, 64)
					case "float64":
						_, err = strconv.ParseFloat(part, 64)
					case "bool":
						if part != "true" && part != "false" {
							err = fmt.Errorf("not true/false")
						}
					}
					if err != nil {
						good = false
					}
				}
				where := strings.TrimPrefix(path, repoModule+"/") + ":" + name + "." + st.Field(i).Name()
				out = append(out, structural(fmt.Sprintf("configuration default of %s.%s (%s) parses with the parser cmd/config.bind uses for the field's type", name, st.Field(i).Name(), kind), where, good, st.Tag(i)))
			}
		}
	}
	return out
}

// wireNameLemmas: a receiver description is a JSON object {"type": ..., "data": {...}} whose data is read by
// the transport plugin of that type. What the sender writes for an address given as a URL (schemeToRecv: the
// keys "url", "group", "id" - pinned by its contract) and what clients write by hand is decoded by struct
// tags; a tag that names another key silently ignores the client's value. One structural obligation per field.
func wireNameLemmas(prog *Program) []*lemmaQuery {
	want := []struct{ pkg, typ, field, name string }{
		{"pkg/receiver", "Recv", "Type", "type"},
		{"pkg/receiver", "Recv", "Data", "data"},
		{"internal/app/plugins/http", "Data", "Url", "url"},
		{"internal/app/plugins/http", "Data", "Headers", "headers"},
		{"internal/app/plugins/poll", "Data", "Group", "group"},
		{"internal/app/plugins/poll", "Data", "Id", "id"},
		{"pkg/message", "Mesg", "Type", "type"},
		{"pkg/message", "Mesg", "Root", "root"},
		{"pkg/message", "Mesg", "Leaf", "leaf"},
	}
	var out []*lemmaQuery
	for _, w := range want {
		ok := false
		detail := "no such field"
		if pp := prog.ppkg[repoModule+"/"+w.pkg]; pp != nil && pp.Types != nil {
			if obj := pp.Types.Scope().Lookup(w.typ); obj != nil {
				if st, isStruct := obj.Type().Underlying().(*types.Struct); isStruct {
					for i := 0; i < st.NumFields(); i++ {
						if st.Field(i).Name() == w.field {
							detail = st.Tag(i)
							name := strings.Split(reflect.StructTag(st.Tag(i)).Get("json"), ",")[0]
							ok = name == w.name
						}
					}
				}
			}
		}
		out = append(out, structural(fmt.Sprintf("%s.%s is read from and written to the JSON key %q of the wire format", w.typ, w.field, w.name), w.pkg+":"+w.typ+"."+w.field, ok, detail))
	}
	return out
}

// headerNameLemmas: the HTTP handlers bind the request headers into per-handler structs by tag; a field whose
// tag names another header silently ignores what the client sent (an idempotency key that is never read makes
// every retry a conflict). Every field called RequestId / IdempotencyKey / Strict of a struct of the http
// package that carries header tags must be bound to the documented header.
func headerNameLemmas(prog *Program) []*lemmaQuery {
	want := map[string]string{"RequestId": "request-id", "IdempotencyKey": "idempotency-key", "Strict": "strict"}
	var out []*lemmaQuery
	pkg := "internal/app/subsystems/api/http"
	pp := prog.ppkg[repoModule+"/"+pkg]
	if pp == nil || pp.Types == nil {
		return []*lemmaQuery{structural("the http package is loaded", pkg, false, "package not found")}
	}
	scope := pp.Types.Scope()
	for _, name := range scope.Names() {
		tn, ok := scope.Lookup(name).(*types.TypeName)
		if !ok {
			continue
		}
		st, ok := tn.Type().Underlying().(*types.Struct)
		if !ok {
			continue
		}
		hasHeader := false
		for i := 0; i < st.NumFields(); i++ {
			if _, ok := reflect.StructTag(st.Tag(i)).Lookup("header"); ok {
				hasHeader = true
			}
		}
		if !hasHeader {
			continue
		}
		for i := 0; i < st.NumFields(); i++ {
			w, known := want[st.Field(i).Name()]
			if !known {
				continue
			}
			got := reflect.StructTag(st.Tag(i)).Get("header")
			out = append(out, structural(fmt.Sprintf("%s.%s is bound to the request header %q", name, st.Field(i).Name(), w), pkg+":"+name+"."+st.Field(i).Name(), got == w, st.Tag(i)))
		}
	}
	return out
}

// selfCallLemmas: termination is not verified by the engine; one pattern is decided all the same because it never
// terminates: a function that calls itself with exactly its own parameters (receiver included), reached from its
// entry without any effect in between - the callee's state is the caller's state.
// Functions of the repository outside generated code; pkg/*.pb.go excluded. One obligation per package.
func selfCallLemmas(prog *Program) []*lemmaQuery {
	bad := map[string][]string{}
	count := map[string]int{}
	for key, fn := range prog.funcs {
		if fn.Pkg == nil || !strings.HasPrefix(fn.Pkg.Pkg.Path(), repoModule) || len(fn.Blocks) == 0 {
			continue
		}
		if pos := prog.fset.Position(fn.Pos()); strings.HasSuffix(pos.Filename, ".pb.go") {
			continue
		}
		pkg := strings.TrimPrefix(fn.Pkg.Pkg.Path(), repoModule+"/")
		count[pkg]++
		// walk the control flow graph from the entry through instructions without effects (no other call, no
		// store, no channel operation): a self-call with the function's own arguments met on such a path repeats
		// the very same computation - it cannot terminate. (A coroutine that retries itself after a store
		// round trip is not such a path: the yield lies in between and the database has moved.)
		seen := map[*ssa.BasicBlock]bool{}
		stack := []*ssa.BasicBlock{fn.Blocks[0]}
		for len(stack) > 0 {
			b := stack[len(stack)-1]
			stack = stack[:len(stack)-1]
			if seen[b] {
				continue
			}
			seen[b] = true
			pure := true
			for _, in := range b.Instrs {
				switch v := in.(type) {
				case *ssa.Call:
					if _, isBuiltin := v.Call.Value.(*ssa.Builtin); isBuiltin {
						continue
					}
					if v.Call.StaticCallee() == fn && len(v.Call.Args) == len(fn.Params) && len(fn.Params) > 0 {
						same := true
						for i, a := range v.Call.Args {
							if a != ssa.Value(fn.Params[i]) {
								same = false
							}
						}
						if same {
							bad[pkg] = append(bad[pkg], key+" @ "+prog.fset.Position(v.Pos()).String())
						}
					}
					pure = false
				case *ssa.Store, *ssa.Send, *ssa.Go, *ssa.Defer, *ssa.RunDefers, *ssa.MapUpdate, *ssa.Select, *ssa.Panic:
					pure = false
				case *ssa.UnOp:
					if v.Op == token.ARROW {
						pure = false
					}
				}
				if !pure {
					break
				}
			}
			if pure {
				stack = append(stack, b.Succs...)
			}
		}
	}
	var pkgs []string
	for p := range count {
		pkgs = append(pkgs, p)
	}
	sort.Strings(pkgs)
	var out []*lemmaQuery
	for _, p := range pkgs {
		sort.Strings(bad[p])
		out = append(out, structural(fmt.Sprintf("no function of %s calls itself with exactly its own arguments (%d functions)", p, count[p]), p, len(bad[p]) == 0, strings.Join(bad[p], "; ")))
	}
	return out
}

// bodyNameLemmas: the HTTP handlers decode request bodies into per-handler structs by json tag; a tag that names
// another key silently ignores what the client sent. The API's keys are the field names in lower camel case (the one
// exception is Description, "desc"), compared without regard to letter case as encoding/json does when it decodes; one
// obligation per tagged field of the http package.
func bodyNameLemmas(prog *Program) []*lemmaQuery {
	except := map[string]string{"Description": "desc"}
	var out []*lemmaQuery
	// the request bodies of the http package, and the resources it renders (the same structs are what a client
	// reads back: two fields tagged with one key are both dropped by encoding/json)
	for _, pkg := range []string{"internal/app/subsystems/api/http", "pkg/promise", "pkg/schedule", "pkg/task", "pkg/lock", "pkg/callback"} {
		pp := prog.ppkg[repoModule+"/"+pkg]
		if pp == nil || pp.Types == nil {
			out = append(out, structural("package "+pkg+" is loaded", pkg, false, "package not found"))
			continue
		}
		scope := pp.Types.Scope()
		for _, name := range scope.Names() {
			tn, ok := scope.Lookup(name).(*types.TypeName)
			if !ok {
				continue
			}
			st, ok := tn.Type().Underlying().(*types.Struct)
			if !ok {
				continue
			}
			for i := 0; i < st.NumFields(); i++ {
				js, has := reflect.StructTag(st.Tag(i)).Lookup("json")
				if !has || js == "-" {
					continue
				}
				f := st.Field(i).Name()
				want := strings.ToLower(f[:1]) + f[1:]
				if e, ok := except[f]; ok {
					want = e
				}
				got := strings.Split(js, ",")[0]
				out = append(out, structural(fmt.Sprintf("%s.%s is read from / written to the JSON key %q", name, f, want), pkg+":"+name+"."+f, strings.EqualFold(got, want), st.Tag(i)))
			}
		}
	}
	return out
}

// scriptLemmas: the start-up script is run on every start against the database of the previous life, so every
// CREATE in it must be conditional (IF NOT EXISTS) - otherwise the second start fails and the acknowledged data
// is out of reach; and the Postgres reset script drops every table the start-up script creates.
func scriptLemmas(prog *Program) []*lemmaQuery {
	var out []*lemmaQuery
	createRe := regexp.MustCompile(`(?i)\bCREATE\s+(UNIQUE\s+)?(TABLE|INDEX)\s+(IF\s+NOT\s+EXISTS\s+)?([A-Za-z_][A-Za-z0-9_]*)`)
	for _, be := range []string{"sqlite", "postgres"} {
		pkg := repoModule + "/internal/app/subsystems/aio/store/" + be
		where := "internal/app/subsystems/aio/store/" + be + ":CREATE_TABLE_STATEMENT"
		text, ok := prog.constString(pkg, "CREATE_TABLE_STATEMENT")
		if !ok {
			out = append(out, structural("the start-up script of the "+be+" store exists", where, false, "constant not found"))
			continue
		}
		var tables []string
		for _, m := range createRe.FindAllStringSubmatch(text, -1) {
			out = append(out, structural(fmt.Sprintf("%s store: CREATE %s %s of the start-up script is conditional (IF NOT EXISTS): the script runs on every start", be, strings.ToUpper(m[2]), m[4]), where, m[3] != "", m[0]))
			if strings.EqualFold(m[2], "table") {
				tables = append(tables, m[4])
			}
		}
		if be == "postgres" {
			drop, ok := prog.constString(pkg, "DROP_TABLE_STATEMENT")
			for _, t := range tables {
				has := ok && regexp.MustCompile(`(?i)\bDROP\s+TABLE\s+(IF\s+EXISTS\s+)?`+t+`\b`).MatchString(drop)
				out = append(out, structural(fmt.Sprintf("postgres store: the reset script drops table %s (a reset store starts empty, like the SQLite store whose file is removed)", t), "internal/app/subsystems/aio/store/postgres:DROP_TABLE_STATEMENT", has, drop))
			}
		}
	}
	return out
}

func extraObligations(prog *Program, prop, tier string) []*lemmaQuery {
	out := extraObligations0(prog, prop, tier)
	switch prop {
	case "C01", "C03", "C10", "C15", "C20":
		out = append(out, bodyNameLemmas(prog)...)
	}
	switch prop {
	case "C06", "C17", "C01", "C05", "C08", "C09", "C10", "C20":
		out = append(out, scriptLemmas(prog)...)
	}
	switch prop {
	case "C12", "C13":
		out = append(out, selfCallLemmas(prog)...)
	}
	switch prop {
	case "C03", "C15", "C20", "C01":
		out = append(out, headerNameLemmas(prog)...)
	}
	switch prop {
	case "C19", "C20", "C18", "C08":
		out = append(out, wireNameLemmas(prog)...)
	}
	switch prop {
	case "C13", "C08", "C12", "C18", "C19":
		// timeouts, queue sizes and worker counts of the subsystems come from these defaults
		out = append(out, defaultTagLemmas(prog)...)
	}
	return out
}

func extraObligations0(prog *Program, prop, tier string) []*lemmaQuery {
	if prop == "C06" {
		return resetDefaultLemmas(prog)
	}
	var out0 []*lemmaQuery
	switch prop {
	case "C01", "C02", "C03", "C04", "C05", "C07", "C08", "C09", "C10", "C16", "C17", "C20":
		// every property about stored client data depends on columns storing exactly what is written
		out0 = schemaLemmas(prog)
		// ... and on the data still being there after a graceful stop with the default configuration
		if prop != "C16" && prop != "C17" {
			out0 = append(out0, resetDefaultLemmas(prog)...)
		}
	}
	if prop == "C10" || prop == "C17" {
		for _, be := range []string{"sqlite", "postgres"} {
			out0 = append(out0, scheduleSweepShape(prog, repoModule+"/internal/app/subsystems/aio/store/"+be)...)
		}
	}
	if prop == "C08" || prop == "C17" {
		for _, be := range []string{"sqlite", "postgres"} {
			out0 = append(out0, enqueueableShape(prog, repoModule+"/internal/app/subsystems/aio/store/"+be)...)
		}
	}
	if prop == "C17" {
		out0 = append(out0, schemaAgreementLemmas(prog)...)
	}
	if prop == "C17" {
		// the Postgres search statements have the shape the paging argument needs (same obligations as C14)
		pkg := repoModule + "/internal/app/subsystems/aio/store/postgres"
		out0 = append(out0, searchShape(prog, pkg, "PROMISE_SEARCH_STATEMENT", true)...)
		out0 = append(out0, searchShape(prog, pkg, "SCHEDULE_SEARCH_STATEMENT", false)...)
	}
	if prop == "C16" || prop == "C17" || prop == "C20" || prop == "C01" || prop == "C02" || prop == "C03" || prop == "C04" || prop == "C07" || prop == "C08" || prop == "C09" || prop == "C10" {
		return out0
	}
	if prop == "C05" {
		return append(out0, derivedIdLemmas(prog)...)
	}
	if prop != "C14" {
		return nil
	}
	var out []*lemmaQuery
	for _, be := range []string{"sqlite", "postgres"} {
		pkg := repoModule + "/internal/app/subsystems/aio/store/" + be
		out = append(out, searchShape(prog, pkg, "PROMISE_SEARCH_STATEMENT", true)...)
		out = append(out, searchShape(prog, pkg, "SCHEDULE_SEARCH_STATEMENT", false)...)
	}
	out = append(out, pagingLemmas(prog)...)
	// the paging lemma's premise "sort ids are unique and never reused" rests on the schema
	out = append(out, schemaLemmas(prog)...)
	return out
}

// pagingLemmas: the step from the per-page contracts to "every matching row exactly once, newest first".
// Abstract store: rows are identified by their sort id (unique, AUTOINCREMENT/SERIAL); matches(s) says row s
// satisfies the filter throughout the traversal. A page for cursor c and limit n is described by the set
// inpage(s) with: (P1) inpage(s) => match(s) and s < c; (P2) every matching s < c that is not in the page is
// older than the page's last row and the page is full; (P3) at most n rows. The next cursor is the last
// (smallest) sort id of a full page.
func pagingLemmas(prog *Program) []*lemmaQuery {
	prelude := `
(declare-fun matches (Int) Bool)
(declare-fun in1 (Int) Bool)
(declare-fun in2 (Int) Bool)
(declare-const c1 Int)
(declare-const last1 Int)
(declare-const full1 Bool)
(declare-const last2 Int)
(declare-const full2 Bool)
; page 1 for cursor c1
(assert (forall ((s Int)) (=> (in1 s) (and (matches s) (< s c1)))))
(assert (forall ((s Int)) (=> (and (matches s) (< s c1) (not (in1 s))) (and full1 (< s last1)))))
(assert (=> full1 (and (in1 last1) (forall ((s Int)) (=> (in1 s) (>= s last1))))))
; page 2 for the cursor taken from page 1 (only requested when page 1 was full)
(assert full1)
(assert (forall ((s Int)) (=> (in2 s) (and (matches s) (< s last1)))))
(assert (forall ((s Int)) (=> (and (matches s) (< s last1) (not (in2 s))) (and full2 (< s last2)))))
(assert (=> full2 (and (in2 last2) (forall ((s Int)) (=> (in2 s) (>= s last2))))))
`
	mk := func(name, goal string) *lemmaQuery {
		return &lemmaQuery{name: name, where: "spec: paging", q: &Query{Name: "paging." + strings.ReplaceAll(name, " ", "_"), Prelude: prelude, Goal: Term{goal, SBool},
			Comment: "paging lemma: " + name}}
	}
	return []*lemmaQuery{
		mk("consecutive pages are disjoint", "(forall ((s Int)) (not (and (in1 s) (in2 s))))"),
		mk("every row of the second page is older than every row of the first", "(forall ((s Int) (t Int)) (=> (and (in1 s) (in2 t)) (< t s)))"),
		mk("no matching row below the first cursor is skipped by two pages", "(forall ((s Int)) (=> (and (matches s) (< s c1)) (or (in1 s) (in2 s) (and full2 (< s last2)))))"),
		mk("pages hold matching rows only", "(forall ((s Int)) (=> (or (in1 s) (in2 s)) (matches s)))"),
	}
}
