package main

// Loading /repo (current working tree, build tag verif) and building SSA.

import (
	"fmt"
	"go/ast"
	"go/printer"
	"go/token"
	"go/types"
	"os"
	"path/filepath"
	"strings"

	"golang.org/x/tools/go/packages"
	"golang.org/x/tools/go/ssa"
	"golang.org/x/tools/go/ssa/ssautil"
)

const repoModule = "github.com/resonatehq/resonate"

type Program struct {
	fset      *token.FileSet
	pkgs      []*packages.Package
	ssa       *ssa.Program
	byPath    map[string]*ssa.Package
	ppkg      map[string]*packages.Package
	globalObj map[*ssa.Global]int
	repoDir   string
	funcs     map[string]*ssa.Function // "pkgname.Func", "pkgname.(*T).M", closures "pkgname.F$1"
	contracts *Contracts
	spec      *Spec
	schema    *Schema
}

func LoadProgram(repoDir string, patterns []string) (*Program, error) {
	cfg := &packages.Config{
		Mode:       packages.LoadAllSyntax,
		Dir:        repoDir,
		BuildFlags: []string{"-tags=verif"},
		Env: append(os.Environ(), "GOFLAGS=-mod=mod", "GOPROXY=off", "GOSUMDB=off", "GOTOOLCHAIN=local",
			"CGO_ENABLED=1"),
		Tests: false,
	}
	pkgs, err := packages.Load(cfg, patterns...)
	if err != nil {
		return nil, err
	}
	var errs []string
	packages.Visit(pkgs, nil, func(p *packages.Package) {
		if strings.HasPrefix(p.PkgPath, repoModule) {
			for _, e := range p.Errors {
				errs = append(errs, e.Error())
			}
		}
	})
	if len(errs) > 0 {
		return nil, fmt.Errorf("load errors:\n%s", strings.Join(errs, "\n"))
	}
	prog, _ := ssautil.AllPackages(pkgs, ssa.InstantiateGenerics|ssa.GlobalDebug)
	prog.Build()
	p := &Program{fset: pkgs[0].Fset, pkgs: pkgs, ssa: prog, byPath: map[string]*ssa.Package{}, ppkg: map[string]*packages.Package{},
		globalObj: map[*ssa.Global]int{}, repoDir: repoDir, funcs: map[string]*ssa.Function{}}
	packages.Visit(pkgs, nil, func(pp *packages.Package) {
		p.ppkg[pp.PkgPath] = pp
	})
	for _, sp := range prog.AllPackages() {
		p.byPath[sp.Pkg.Path()] = sp
	}
	for fn := range ssautil.AllFunctions(prog) {
		if fn.Pkg == nil && fn.Origin() == nil {
			continue
		}
		p.funcs[p.funcKey(fn)] = fn
	}
	return p, nil
}

// funcKey gives the name used in contract files and on the command line:
// "<import path relative to the module>:<name>" where name is Func,
// (*T).Method, T.Method, or Func$1 for closures.
func (p *Program) funcKey(fn *ssa.Function) string {
	pkg := fn.Pkg
	if pkg == nil && fn.Origin() != nil {
		pkg = fn.Origin().Pkg
	}
	for q := fn; pkg == nil && q.Parent() != nil; q = q.Parent() {
		pkg = q.Parent().Pkg
	}
	path := ""
	if pkg != nil {
		path = pkg.Pkg.Path()
	}
	path = strings.TrimPrefix(path, repoModule+"/")
	name := fn.RelString(nil)
	// RelString gives e.g. "(*github.com/x/y.T).M" or "github.com/x/y.F$1"
	if pkg != nil {
		name = strings.ReplaceAll(name, pkg.Pkg.Path()+".", "")
	}
	return path + ":" + name
}

func (p *Program) pos(pos token.Pos) string {
	if pos == token.NoPos {
		return "-"
	}
	ps := p.fset.Position(pos)
	f := ps.Filename
	if rel, err := filepath.Rel(p.repoDir, f); err == nil && !strings.HasPrefix(rel, "..") {
		f = rel
	} else if i := strings.Index(f, "/pkg/mod/"); i >= 0 {
		f = f[i+9:]
	}
	return fmt.Sprintf("%s:%d", f, ps.Line)
}

func (p *Program) inRepo(fn *ssa.Function) bool {
	pkg := fn.Pkg
	if pkg == nil && fn.Origin() != nil {
		pkg = fn.Origin().Pkg
	}
	for q := fn; pkg == nil && q.Parent() != nil; q = q.Parent() {
		pkg = q.Parent().Pkg
	}
	return pkg != nil && strings.HasPrefix(pkg.Pkg.Path(), repoModule)
}

func (p *Program) lookupFunc(key string) *ssa.Function {
	return p.funcs[key]
}

// syntaxOf returns the AST function declaration or literal for fn.
func (p *Program) syntaxOf(fn *ssa.Function) ast.Node { return fn.Syntax() }

// constString resolves a package-level string constant by name.
func (p *Program) constString(pkgPath, name string) (string, bool) {
	pp := p.ppkg[pkgPath]
	if pp == nil {
		return "", false
	}
	obj := pp.Types.Scope().Lookup(name)
	c, ok := obj.(*types.Const)
	if !ok {
		return "", false
	}
	return constStringVal(c)
}

// srcExprAt returns the source text of the binary expression (or statement) whose operator is at pos.
func (p *Program) srcExprAt(pos token.Pos) string {
	if pos == token.NoPos {
		return ""
	}
	tf := p.fset.File(pos)
	if tf == nil {
		return ""
	}
	for _, pp := range p.ppkg {
		for _, f := range pp.Syntax {
			if p.fset.File(f.Pos()) != tf {
				continue
			}
			var found ast.Node
			ast.Inspect(f, func(n ast.Node) bool {
				if n == nil || found != nil {
					return false
				}
				if n.Pos() > pos || n.End() < pos {
					return false
				}
				switch e := n.(type) {
				case *ast.BinaryExpr:
					if e.OpPos == pos {
						found = e
					}
				case *ast.IncDecStmt:
					if e.TokPos == pos {
						found = e
					}
				case *ast.AssignStmt:
					if e.TokPos == pos {
						found = e
					}
				}
				return true
			})
			if found != nil {
				var b strings.Builder
				if err := printer.Fprint(&b, p.fset, found); err == nil {
					return strings.Join(strings.Fields(b.String()), " ")
				}
			}
			return ""
		}
	}
	return ""
}

// ifaceKey names an interface method in contract files: "<pkg path relative to the module>:(<Iface>).<Method>".
func (p *Program) ifaceKey(recv types.Type, method string) string {
	name := stripGenerics(types.TypeString(recv, nil))
	path := ""
	if i := strings.LastIndex(name, "."); i >= 0 {
		path, name = name[:i], name[i+1:]
	}
	path = strings.TrimPrefix(path, repoModule+"/")
	return path + ":(" + name + ")." + method
}
