package main

// database/sql modelled on the abstract database. The contract of each call
// is generated from the SQL text bound to it (sqlsem.go). Any call may
// instead fail and leave the SQL transaction unchanged.

import (
	"fmt"
	"go/constant"
	"go/types"
	"strings"

	"golang.org/x/tools/go/ssa"
)

type SQLStmtObj struct {
	Text string
	Stmt *SQLStmt
	Name string // name of the Go constant when known
}

type SQLRowObj struct {
	Stmt   *SQLStmt
	Params []Value
	Snap   map[string]*TableVer
	Err    string
}

type SQLRowsObj struct {
	Stmt    *SQLStmt
	Params  []Value
	Snap    map[string]*TableVer
	Emitted int
	CurKey  Term
	Keys    []Term
	Closed  bool
	Name    string
}

type SQLResultObj struct{ Rows Term }

type TxObj struct {
	State string // begun, committed, rolledback
	Entry map[string]*TableVer
}

func (x *Exec) dialect() string {
	if strings.Contains(x.fn.String(), "postgres") {
		return "postgres"
	}
	return "sqlite"
}

func (x *Exec) varargs(st *State, v Value) []Value {
	sl, ok := x.force(st, v).(VSlice)
	if !ok || sl.Arr < 0 {
		return nil
	}
	arr, ok := st.heap[sl.Arr].(VArray)
	if !ok {
		x.unsupported(st, "variadic arguments of unknown length")
		return nil
	}
	n, _ := isIntLit(sl.Len)
	return arr.E[sl.Lo : sl.Lo+int(n)]
}

func (x *Exec) sqlTextOf(st *State, v Value) (string, bool) {
	t := x.scalar(st, v)
	if !isStrLit(t) {
		return "", false
	}
	return x.sym.LitValue(t.S)
}

func (x *Exec) parseOne(st *State, text string) *SQLStmt {
	stmts, err := ParseSQL(text)
	if err != nil || len(stmts) != 1 {
		msg := "not exactly one statement"
		if err != nil {
			msg = err.Error()
		}
		x.sqlProblem(st, "statement outside the verified SQL subset: "+msg)
		return nil
	}
	return stmts[0]
}

// sqlProblem reports a statement the front end cannot give a semantics to as
// a failed obligation (never a silent pass).
func (x *Exec) sqlProblem(st *State, msg string) {
	x.oblige(st, "sql", msg, TFalse, 0, x.sqlProps)
	st.dead = true
}

func (x *Exec) ghostDB(st *State) *GhostDB {
	if st.ghost == nil || st.ghost.db == nil {
		x.unsupported(st, "database call without database ghost")
		return nil
	}
	st.ghost.db.x = x
	return st.ghost.db
}

// failable forks into a failing path (err != nil, no effect) and returns the
// state that continues with success (or nil).
func (x *Exec) failable(st *State, fr *Frame, c *callCtx, what string, failVal func(s *State) Value) *State {
	fail := x.sym.Fresh(what+".fails", SBool)
	ts, fs := x.fork(st, fail, what+" fails")
	if ts != nil {
		x.complete(ts, st, c, failVal(ts))
	}
	return fs
}

func nilPtr(t types.Type) VPtr { return VPtr{Nil: TTrue, Typ: t} }

func init() {
	reg("context.Background", "opaque context", noop)
	reg("context.WithTimeout", "returns an opaque context and a cancel function that does nothing observable", func(x *Exec, st *State, fr *Frame, c *callCtx) bool {
		ctx := VIface{Nil: TFalse, Id: x.sym.Fresh("ctx", SErr)}
		return x.finish(st, fr, c, VTuple{[]Value{ctx, VOpaque{Name: "cancel"}}})
	})
	reg("funcvalue:cancel", "context cancel function: no observable effect", func(x *Exec, st *State, fr *Frame, c *callCtx) bool {
		return x.finish(st, fr, c, nil)
	})

	reg("(*database/sql.DB).BeginTx", "BeginTx starts one SQL transaction or fails", func(x *Exec, st *State, fr *Frame, c *callCtx) bool {
		g := x.ghostDB(st)
		if g == nil {
			return true
		}
		errT := errType()
		txT := c.ret.Type().(*types.Tuple).At(0).Type()
		s := x.failable(st, fr, c, "BeginTx", func(s *State) Value {
			return VTuple{[]Value{nilPtr(txT), x.freshErr(s, "begin.err", TFalse)}}
		})
		if s == nil {
			return true
		}
		sg := s.ghost.db
		obj := x.alloc(s, &TxObj{State: "begun", Entry: sg.snapshot()})
		sg.txLog = append(append([]string(nil), sg.txLog...), "begin")
		v := VTuple{[]Value{VPtr{Nil: TFalse, Loc: &Loc{Obj: obj}, Typ: txT}, VIface{Nil: TTrue, Typ: errT}}}
		x.complete(s, st, c, v)
		return true
	})
	reg("(*database/sql.Tx).Commit", "Commit makes the transaction's effects durable and visible atomically, or fails (outcome then unknown to the caller)", func(x *Exec, st *State, fr *Frame, c *callCtx) bool {
		return x.txEnd(st, fr, c, "commit")
	})
	reg("(*database/sql.Tx).Rollback", "Rollback undoes every effect since BeginTx", func(x *Exec, st *State, fr *Frame, c *callCtx) bool {
		return x.txEnd(st, fr, c, "rollback")
	})
	reg("(*database/sql.Tx).Prepare", "Prepare binds the statement text; may fail", func(x *Exec, st *State, fr *Frame, c *callCtx) bool {
		text, ok := x.sqlTextOf(st, c.args[1])
		stT := c.ret.Type().(*types.Tuple).At(0).Type()
		if !ok {
			x.sqlProblem(st, "Prepare of a non-constant statement")
			return true
		}
		stmt := x.parseOne(st, text)
		if stmt == nil {
			return true
		}
		s := x.failable(st, fr, c, "Prepare", func(s *State) Value {
			return VTuple{[]Value{nilPtr(stT), x.freshErr(s, "prepare.err", TFalse)}}
		})
		if s == nil {
			return true
		}
		obj := x.alloc(s, &SQLStmtObj{Text: text, Stmt: stmt, Name: x.constNameOf(text)})
		v := VTuple{[]Value{VPtr{Nil: TFalse, Loc: &Loc{Obj: obj}, Typ: stT}, VIface{Nil: TTrue, Typ: errType()}}}
		x.complete(s, st, c, v)
		return true
	})
	reg("(*database/sql.Stmt).Close", "no observable effect", func(x *Exec, st *State, fr *Frame, c *callCtx) bool {
		return x.finish(st, fr, c, VIface{Nil: TTrue, Typ: errType()})
	})
	reg("(*database/sql.Rows).Close", "no observable effect", func(x *Exec, st *State, fr *Frame, c *callCtx) bool {
		return x.finish(st, fr, c, VIface{Nil: TTrue, Typ: errType()})
	})
	reg("(*database/sql.DB).Close", "closes the handle; stored data is kept", func(x *Exec, st *State, fr *Frame, c *callCtx) bool {
		return x.finish(st, fr, c, x.freshErr(st, "dbclose.err", x.sym.Fresh("dbclose.ok", SBool)))
	})
	reg("(*database/sql.Stmt).Exec", "Exec applies the prepared statement (semantics generated from its SQL text) or fails without effect", func(x *Exec, st *State, fr *Frame, c *callCtx) bool {
		return x.sqlExec(st, fr, c)
	})
	reg("(database/sql.Result).RowsAffected", "reports the rows changed by the statement; may fail", func(x *Exec, st *State, fr *Frame, c *callCtx) bool {
		iv, ok := x.force(st, c.args[0]).(VIface)
		var rows Term
		if ok {
			if r, ok := iv.Val.(*SQLResultObj); ok {
				rows = r.Rows
			}
		}
		if rows.S == "" {
			x.unsupported(st, "RowsAffected on unknown result")
			return true
		}
		s := x.failable(st, fr, c, "RowsAffected", func(s *State) Value {
			return VTuple{[]Value{VScalar{IntLit(0)}, x.freshErr(s, "rowsaffected.err", TFalse)}}
		})
		if s == nil {
			return true
		}
		v := VTuple{[]Value{VScalar{rows}, VIface{Nil: TTrue, Typ: errType()}}}
		x.complete(s, st, c, v)
		return true
	})
	reg("(*database/sql.Tx).QueryRow", "QueryRow evaluates a keyed SELECT on the current transaction state", func(x *Exec, st *State, fr *Frame, c *callCtx) bool {
		g := x.ghostDB(st)
		if g == nil {
			return true
		}
		text, ok := x.sqlTextOf(st, c.args[1])
		if !ok {
			x.sqlProblem(st, "QueryRow of a non-constant statement")
			return true
		}
		stmt := x.parseOne(st, text)
		if stmt == nil {
			return true
		}
		obj := x.alloc(st, &SQLRowObj{Stmt: stmt, Params: x.varargs(st, c.args[2]), Snap: g.snapshot()})
		return x.finish(st, fr, c, VPtr{Nil: TFalse, Loc: &Loc{Obj: obj}, Typ: c.ret.Type()})
	})
	reg("(*database/sql.Row).Scan", "Scan copies the selected columns positionally, returns sql.ErrNoRows when no row matched, or fails", func(x *Exec, st *State, fr *Frame, c *callCtx) bool {
		return x.sqlRowScan(st, fr, c)
	})
	reg("database/sql.Open", "sql.Open: may fail; on success a non-nil handle (the connection itself is the driver's)", func(x *Exec, st *State, fr *Frame, c *callCtx) bool {
		tup := c.ret.Type().(*types.Tuple)
		fail := x.sym.Fresh("sql.open.fails", SBool)
		ts, fs := x.fork(st, fail, "sql.Open fails")
		if ts != nil {
			x.completeCall(ts, c, VTuple{[]Value{VPtr{Nil: TTrue, Typ: tup.At(0).Type()}, x.freshErr(ts, "sql.open.err", TFalse)}})
		}
		if fs != nil {
			x.callCounter++
			pt := tup.At(0).Type().(*types.Pointer)
			obj := x.alloc(fs, VOpaque{Typ: pt.Elem(), Name: fmt.Sprintf("sql.DB!%d", x.callCounter)})
			x.completeCall(fs, c, VTuple{[]Value{VPtr{Nil: TFalse, Loc: &Loc{Obj: obj}, Typ: pt}, VIface{Nil: TTrue, Typ: errType()}}})
		}
		return true
	})
	for _, m := range []string{"Exec", "Ping"} {
		m := m
		reg("(*database/sql.DB)."+m, "a statement outside any transaction of the store worker (DDL at start-up, DROP at reset) or closing the handle: may fail; not modelled beyond that", func(x *Exec, st *State, fr *Frame, c *callCtx) bool {
			return x.finish(st, fr, c, x.symbolicResult(st, c))
		})
	}
	reg("(*database/sql.Tx).Query", "Query evaluates a SELECT; rows are delivered by Next/Scan", func(x *Exec, st *State, fr *Frame, c *callCtx) bool {
		return x.sqlQuery(st, fr, c)
	})
	reg("(*database/sql.Rows).Next", "Next reports whether another row of the result exists", func(x *Exec, st *State, fr *Frame, c *callCtx) bool {
		return x.sqlRowsNext(st, fr, c)
	})
	reg("(*database/sql.Rows).Scan", "Scan copies the current row's columns positionally or fails", func(x *Exec, st *State, fr *Frame, c *callCtx) bool {
		return x.sqlRowsScan(st, fr, c)
	})
	reg("(*database/sql.Rows).Err", "arbitrary", noop)
}

func (x *Exec) constNameOf(text string) string {
	for _, pkg := range []string{repoModule + "/internal/app/subsystems/aio/store/sqlite", repoModule + "/internal/app/subsystems/aio/store/postgres"} {
		pp := x.prog.ppkg[pkg]
		if pp == nil || pp.Types == nil {
			continue
		}
		sc := pp.Types.Scope()
		for _, n := range sc.Names() {
			if cst, ok := sc.Lookup(n).(*types.Const); ok {
				if s, ok := constStringVal(cst); ok && s == text && strings.Contains(x.fn.String(), pp.Types.Name()) {
					return n
				}
			}
		}
	}
	return ""
}

func (x *Exec) txEnd(st *State, fr *Frame, c *callCtx, what string) bool {
	g := x.ghostDB(st)
	if g == nil {
		return true
	}
	p, ok := x.force(st, c.args[0]).(VPtr)
	if !ok || p.Loc == nil {
		x.unsupported(st, what+" on unknown transaction")
		return true
	}
	tx, ok := st.heap[p.Loc.Obj].(*TxObj)
	if !ok {
		// a symbolic *sql.Tx parameter
		tx = &TxObj{State: "begun", Entry: g.entry}
	}
	x.oblige(st, "tx-typestate", what+" on a transaction that is still open", BoolLit(tx.State == "begun"), c.common.Pos(), x.txProps)
	fail := x.sym.Fresh(what+".fails", SBool)
	ts, fs := x.fork(st, fail, what+" fails")
	for _, s := range []*State{ts, fs} {
		if s == nil {
			continue
		}
		sg := s.ghost.db
		failed := s == ts
		ntx := &TxObj{State: map[bool]string{true: "failed-" + what, false: what}[failed] + "", Entry: tx.Entry}
		if !failed {
			if what == "rollback" {
				for k, v := range tx.Entry {
					sg.cur[k] = v
				}
				ntx.State = "rolledback"
			} else {
				ntx.State = "committed"
			}
		} else if what == "commit" {
			// outcome unknown to the program; the engine treats the effects as not acknowledged
			ntx.State = "commit-failed"
		} else {
			ntx.State = "rollback-failed"
		}
		if _, isTx := s.heap[p.Loc.Obj].(*TxObj); isTx {
			s.heap[p.Loc.Obj] = ntx
		}
		sg.txLog = append(append([]string(nil), sg.txLog...), ntx.State)
		var ev Value = VIface{Nil: TTrue, Typ: errType()}
		if failed {
			ev = x.freshErr(s, what+".err", TFalse)
		}
		x.complete(s, st, c, ev)
	}
	return true
}

func (x *Exec) stmtOf(st *State, v Value) *SQLStmtObj {
	p, ok := x.force(st, v).(VPtr)
	if !ok || p.Loc == nil {
		return nil
	}
	so, _ := st.heap[p.Loc.Obj].(*SQLStmtObj)
	return so
}

func (x *Exec) sqlExec(st *State, fr *Frame, c *callCtx) bool {
	g := x.ghostDB(st)
	if g == nil {
		return true
	}
	p, _ := x.force(st, c.args[0]).(VPtr)
	if !x.derefCheck(st, p, "Exec on nil statement", c.common.Pos()) {
		return true
	}
	so := x.stmtOf(st, c.args[0])
	if so == nil {
		x.sqlProblem(st, "Exec on a statement whose SQL text is unknown (missing //@ stmt binding)")
		return true
	}
	params := x.varargs(st, c.args[1])
	if st.dead {
		return true
	}
	resT := c.ret.Type().(*types.Tuple).At(0).Type()
	s := x.failable(st, fr, c, "Exec", func(s *State) Value {
		return VTuple{[]Value{VIface{Nil: TTrue, Typ: resT}, x.freshErr(s, "exec.err", TFalse)}}
	})
	if s == nil {
		return true
	}
	sg := s.ghost.db
	sg.x = x
	out := sg.execSQL(s, so.Stmt, params, x.dialect())
	if out.Err != "" {
		x.oblige(s, "sql", fmt.Sprintf("%s: %s", so.Name, out.Err), TFalse, c.common.Pos(), x.sqlProps)
		s.dead = true
		return true
	}
	sg.execLog = append(append([]execRec(nil), sg.execLog...), execRec{Stmt: so, Rows: out.Rows})
	v := VTuple{[]Value{VIface{Nil: TFalse, Val: &SQLResultObj{Rows: out.Rows}, Typ: resT}, VIface{Nil: TTrue, Typ: errType()}}}
	x.complete(s, st, c, v)
	return true
}

type execRec struct {
	Stmt *SQLStmtObj
	Rows Term
}

// scanInto writes a column value into a Go destination. It returns the
// condition under which the conversion fails (NULL into a non-nullable Go type).
func (x *Exec) scanInto(st *State, dest Value, col Term) (bad Term, ok bool) {
	iv, isI := x.force(st, dest).(VIface)
	if !isI || iv.Dyn == nil {
		return TFalse, false
	}
	p, isP := x.force(st, iv.Val).(VPtr)
	if !isP || p.Loc == nil {
		return TFalse, false
	}
	elem := iv.Dyn.Underlying().(*types.Pointer).Elem()
	null := optIsNull(col)
	switch {
	case isByteSlice(elem):
		if col.Sort != SOptB {
			return TFalse, false
		}
		x.store(st, p.Loc, VBytes{Nil: null, B: Ite(null, Term{"bytes.empty", SBytes}, optVal(col))})
		return TFalse, true
	default:
		if pt, isPtr := elem.Underlying().(*types.Pointer); isPtr {
			s, okS := scalarSort(pt.Elem())
			if !okS || optOf(s) != col.Sort {
				return TFalse, false
			}
			obj := x.alloc(st, VScalar{optVal(col)})
			x.store(st, p.Loc, VPtr{Nil: null, Loc: &Loc{Obj: obj}, Typ: elem})
			return TFalse, true
		}
		s, okS := scalarSort(elem)
		if !okS || optOf(s) != col.Sort {
			return TFalse, false
		}
		v := optVal(col)
		if s == SInt {
			// the driver rejects values outside the destination's range
			if lo, hi, ok := intRange(basicOf(elem)); ok {
				st.assume(Implies(Not(null), And(Le(Term{lo, SInt}, v), Le(v, Term{hi, SInt}))))
			}
		}
		x.store(st, p.Loc, VScalar{v})
		return null, true
	}
}

func (x *Exec) projTerms(st *State, g *GhostDB, sel *SQLSelect, t *Table, row Term, params []Value, snap map[string]*TableVer) ([]Term, string) {
	errMsg := ""
	env := &sqlEnv{g: g, st: st, table: t, alias: sel.Alias, row: row, params: params, snap: snap, err: &errMsg}
	var out []Term
	for _, pe := range sel.Proj {
		out = append(out, env.value(pe, env.sortHint(pe)))
	}
	return out, errMsg
}

func (x *Exec) sqlRowScan(st *State, fr *Frame, c *callCtx) bool {
	g := x.ghostDB(st)
	if g == nil {
		return true
	}
	p, _ := x.force(st, c.args[0]).(VPtr)
	ro, ok := st.heap[p.Loc.Obj].(*SQLRowObj)
	if !ok {
		x.unsupported(st, "Scan on unknown row")
		return true
	}
	sel := ro.Stmt.Select
	if sel == nil {
		x.sqlProblem(st, "QueryRow of a statement that is not a SELECT")
		return true
	}
	t := g.schema.Tables[sel.From]
	if t == nil {
		x.sqlProblem(st, "SELECT from unknown table "+sel.From)
		return true
	}
	dests := x.varargs(st, c.args[1])
	if len(dests) != len(sel.Proj) {
		x.oblige(st, "sql", fmt.Sprintf("Scan has %d destinations for %d selected columns", len(dests), len(sel.Proj)), TFalse, c.common.Pos(), x.sqlProps)
		st.dead = true
		return true
	}
	errMsg := ""
	base := &sqlEnv{g: g, st: st, params: ro.Params, snap: ro.Snap, err: &errMsg}
	if ro.Stmt.NParams != len(ro.Params) {
		x.oblige(st, "sql", fmt.Sprintf("statement has %d placeholders but %d arguments are bound", ro.Stmt.NParams, len(ro.Params)), TFalse, c.common.Pos(), x.sqlProps)
		st.dead = true
		return true
	}
	keyEx, ok := keyEquality(t, sel.Alias, sel.Where)
	if !ok {
		x.sqlProblem(st, "QueryRow SELECT does not pin the key column of "+t.Name)
		return true
	}
	kt := base.value(keyEx, t.col(t.Key).Sort)
	k := optVal(kt)
	g.noteKey(k)
	row := g.rowAt(st, ro.Snap[t.Name], k)
	env := &sqlEnv{g: g, st: st, table: t, alias: sel.Alias, row: row, params: ro.Params, snap: ro.Snap, err: &errMsg}
	hit := And(Not(optIsNull(kt)), rowPresent(t.Name, row), env.cond(sel.Where).T)
	if errMsg != "" {
		x.oblige(st, "sql", errMsg, TFalse, c.common.Pos(), x.sqlProps)
		st.dead = true
		return true
	}
	// three outcomes: driver failure, no rows, a row
	s := x.failable(st, fr, c, "Scan", func(s *State) Value { return x.freshErr(s, "scan.err", TFalse) })
	if s == nil {
		return true
	}
	hs, ms := x.fork(s, hit, "row found")
	if ms != nil {
		noRows := x.global(ms, x.prog.errNoRows())
		ev := x.load(ms, noRows.(VPtr).Loc)
		x.complete(ms, st, c, ev)
	}
	if hs != nil {
		cols, em := x.projTerms(hs, hs.ghost.db, sel, t, row, ro.Params, ro.Snap)
		if em != "" {
			x.oblige(hs, "sql", em, TFalse, c.common.Pos(), x.sqlProps)
			hs.dead = true
			return true
		}
		bad := TFalse
		for i, d := range dests {
			b, ok := x.scanInto(hs, d, cols[i])
			if !ok {
				x.oblige(hs, "sql", fmt.Sprintf("Scan destination %d does not fit selected column %d", i+1, i+1), TFalse, c.common.Pos(), x.sqlProps)
				hs.dead = true
				return true
			}
			bad = Or(bad, b)
		}
		// NULL into a non-nullable destination makes Scan fail
		bs, gs := x.fork(hs, bad, "scan conversion fails")
		if bs != nil {
			ev := x.freshErr(bs, "scan.conv.err", TFalse)
			x.complete(bs, st, c, ev)
		}
		if gs != nil {
			ev := VIface{Nil: TTrue, Typ: errType()}
			x.complete(gs, st, c, ev)
		}
	}
	return true
}

// completeCall finishes the current call on state s; states other than the
// one being stepped are queued.
func (x *Exec) completeCall(s *State, c *callCtx, v Value) {
	x.complete(s, x.cur, c, v)
}

func constInt(c *types.Const) (int64, bool) {
	if c.Val().Kind() != constant.Int {
		return 0, false
	}
	return constant.Int64Val(c.Val())
}

// complete finishes the current call on state s; clones are queued.
func (x *Exec) complete(s, cur *State, c *callCtx, v Value) {
	if s == nil || s.dead {
		return
	}
	x.finishOn(s, s.top(), c, v)
	if s != cur {
		x.push(s)
	}
}

func constStringVal(c *types.Const) (string, bool) {
	if c.Val().Kind() != constant.String {
		return "", false
	}
	return constant.StringVal(c.Val()), true
}

func (p *Program) errNoRows() *ssa.Global {
	sp := p.byPath["database/sql"]
	if sp == nil {
		return nil
	}
	g, _ := sp.Members["ErrNoRows"].(*ssa.Global)
	return g
}

func (x *Exec) sqlQuery(st *State, fr *Frame, c *callCtx) bool {
	g := x.ghostDB(st)
	if g == nil {
		return true
	}
	rowsT := c.ret.Type().(*types.Tuple).At(0).Type()
	text, ok := x.sqlTextOf(st, c.args[1])
	var stmt *SQLStmt
	var params []Value
	if ok {
		params = x.varargs(st, c.args[2])
		stmt = x.parseOne(st, text)
		if stmt == nil {
			return true
		}
	} else {
		// a statement built with fmt.Sprintf(TEMPLATE, dynamic): see searchTemplate
		stmt, params = x.searchTemplate(st, c.args[1], c.args[2])
		if stmt == nil {
			if !st.dead {
				x.sqlProblem(st, "Query of a non-constant statement")
			}
			return true
		}
	}
	if stmt.Select == nil {
		x.sqlProblem(st, "Query of a statement that is not a SELECT")
		return true
	}
	s := x.failable(st, fr, c, "Query", func(s *State) Value {
		return VTuple{[]Value{nilPtr(rowsT), x.freshErr(s, "query.err", TFalse)}}
	})
	if s == nil {
		return true
	}
	x.callCounter++
	obj := x.alloc(s, &SQLRowsObj{Stmt: stmt, Params: params, Snap: s.ghost.db.snapshot(), Name: fmt.Sprintf("rows!%d", x.callCounter)})
	x.complete(s, st, c, VTuple{[]Value{VPtr{Nil: TFalse, Loc: &Loc{Obj: obj}, Typ: rowsT}, VIface{Nil: TTrue, Typ: errType()}}})
	return true
}

func (x *Exec) rowsObj(st *State, v Value) (*SQLRowsObj, int) {
	p, ok := x.force(st, v).(VPtr)
	if !ok || p.Loc == nil {
		return nil, 0
	}
	ro, _ := st.heap[p.Loc.Obj].(*SQLRowsObj)
	return ro, p.Loc.Obj
}

func (x *Exec) sqlRowsNext(st *State, fr *Frame, c *callCtx) bool {
	g := x.ghostDB(st)
	if g == nil {
		return true
	}
	ro, obj := x.rowsObj(st, c.args[0])
	if ro == nil {
		x.unsupported(st, "Next on unknown rows")
		return true
	}
	sel := ro.Stmt.Select
	t := g.schema.Tables[sel.From]
	if t == nil {
		x.sqlProblem(st, "SELECT from unknown table "+sel.From)
		return true
	}
	x.callCounter++
	has := x.sym.Fresh(ro.Name+".has", SBool)
	hs, ns := x.fork(st, has, "rows.Next")
	if ns != nil {
		x.complete(ns, st, c, VScalar{TFalse})
	}
	if hs != nil {
		hg := hs.ghost.db
		hg.x = x
		k := x.sym.Fresh(ro.Name+".key", SStr)
		row := hg.rowAt(hs, ro.Snap[t.Name], k)
		errMsg := ""
		env := &sqlEnv{g: hg, st: hs, table: t, alias: sel.Alias, row: row, params: ro.Params, snap: ro.Snap, err: &errMsg}
		cond := TTrue
		if sel.Where != nil {
			cond = env.cond(sel.Where).T
		}
		if errMsg != "" {
			x.oblige(hs, "sql", errMsg, TFalse, c.common.Pos(), x.sqlProps)
			hs.dead = true
			return true
		}
		hs.assume(And(rowPresent(t.Name, row), cond))
		for _, prev := range ro.Keys {
			hs.assume(Not(Eq(prev, k)))
		}
		cp := *ro
		cp.CurKey = k
		cp.Keys = append(append([]Term(nil), ro.Keys...), k)
		cp.Emitted++
		hs.heap[obj] = &cp
		hg.noteKey(k)
		x.complete(hs, st, c, VScalar{TTrue})
	}
	return true
}

func (x *Exec) sqlRowsScan(st *State, fr *Frame, c *callCtx) bool {
	g := x.ghostDB(st)
	if g == nil {
		return true
	}
	ro, _ := x.rowsObj(st, c.args[0])
	if ro == nil || ro.CurKey.S == "" {
		x.unsupported(st, "Scan on rows without a current row")
		return true
	}
	sel := ro.Stmt.Select
	t := g.schema.Tables[sel.From]
	dests := x.varargs(st, c.args[1])
	if len(dests) != len(sel.Proj) {
		x.oblige(st, "sql", fmt.Sprintf("Scan has %d destinations for %d selected columns", len(dests), len(sel.Proj)), TFalse, c.common.Pos(), x.sqlProps)
		st.dead = true
		return true
	}
	s := x.failable(st, fr, c, "Scan", func(s *State) Value { return x.freshErr(s, "scan.err", TFalse) })
	if s == nil {
		return true
	}
	sg := s.ghost.db
	sg.x = x
	row := sg.rowAt(s, ro.Snap[t.Name], ro.CurKey)
	cols, em := x.projTerms(s, sg, sel, t, row, ro.Params, ro.Snap)
	if em != "" {
		x.oblige(s, "sql", em, TFalse, c.common.Pos(), x.sqlProps)
		s.dead = true
		return true
	}
	bad := TFalse
	for i, d := range dests {
		b, ok := x.scanInto(s, d, cols[i])
		if !ok {
			x.oblige(s, "sql", fmt.Sprintf("Scan destination %d does not fit selected column %d", i+1, i+1), TFalse, c.common.Pos(), x.sqlProps)
			s.dead = true
			return true
		}
		bad = Or(bad, b)
	}
	bs, gs := x.fork(s, bad, "scan conversion fails")
	if bs != nil {
		x.complete(bs, st, c, x.freshErr(bs, "scan.conv.err", TFalse))
	}
	if gs != nil {
		x.complete(gs, st, c, VIface{Nil: TTrue, Typ: errType()})
	}
	return true
}

// searchTemplate handles tx.Query(fmt.Sprintf(TEMPLATE, placeholder), args...)
// (the SQLite search statements). Implemented in search.go.
// searchTemplate handles a statement built as fmt.Sprintf(TEMPLATE, dynamic) where TEMPLATE is a SELECT
// with one %s hole after its WHERE condition (the tag filter of the search statements). The hole stands for
// an unknown further conjunct: rows satisfy the written condition (and more). Positional parameters before
// the hole are the leading arguments; the ones after it (the LIMIT) follow the hole's own arguments, whose
// number is unknown, and are taken as unconstrained.
func (x *Exec) searchTemplate(st *State, text Value, args Value) (*SQLStmt, []Value) {
	sc, ok := x.force(st, text).(VScalar)
	if !ok {
		return nil, nil
	}
	tmpl, ok := x.sprintfFmt[sc.T.S]
	if !ok || strings.Count(tmpl, "%s") != 1 {
		return nil, nil
	}
	stmts, err := ParseSQL(tmpl)
	if err != nil || len(stmts) != 1 || stmts[0].Select == nil || !stmts[0].Select.HasHole {
		return nil, nil
	}
	before := strings.Count(tmpl[:strings.Index(tmpl, "%s")], "?")
	total := strings.Count(tmpl, "?")
	sl, ok := x.force(st, args).(VSlice)
	if !ok || sl.Arr < 0 {
		return nil, nil
	}
	params := make([]Value, total)
	for i := 0; i < total; i++ {
		x.callCounter++
		params[i] = VScalar{x.sym.Fresh(fmt.Sprintf("sqlparam.after.hole!%d", x.callCounter), SInt)}
	}
	get := func(k int) (Value, bool) {
		switch arr := st.heap[sl.Arr].(type) {
		case VArray:
			if sl.Lo+k < len(arr.E) {
				return arr.E[sl.Lo+k], true
			}
		case *VAbsArr:
			for _, c := range arr.Cells {
				if v, ok := isIntLit(c.Idx); ok && int(v) == k {
					return c.Val, true
				}
			}
		}
		return nil, false
	}
	for k := 0; k < before; k++ {
		v, ok := get(k)
		if !ok {
			return nil, nil
		}
		params[k] = v
	}
	x.notes["statement template with a %s hole (tag filter): rows satisfy the written WHERE condition and an unknown further one; parameters after the hole are unconstrained"] = true
	return stmts[0], params
}
