package main

// Slices, arrays, maps, strings, channels.

import (
	"fmt"
	"go/token"
	"go/types"
	"os"
	"regexp"
	"strings"

	"golang.org/x/tools/go/ssa"
)

type VChan struct {
	Nil Term
	Obj int
	Typ types.Type
	Id  Term // identity (sort ErrId): two channel values are the same channel iff their ids are equal
}

// ChanObj is the heap content of a channel: a ghost queue abstraction.
type ChanObj struct {
	Typ    types.Type
	Cap    Term
	Closed Term
	Sent   []Value // values sent on this path (ghost log)
	Len    Term    // number of buffered elements when first observed (symbolic for input channels)
	Name   string
}

func (x *Exec) makeSlice(st *State, fr *Frame, i *ssa.MakeSlice, set func(Value)) {
	ln := x.scalar(st, x.eval(st, fr, i.Len))
	if st.dead {
		return
	}
	x.oblige(st, "bounds", "makeslice: len out of range", Ge(ln, IntLit(0)), i.Pos(), nil)
	elem := i.Type().Underlying().(*types.Slice).Elem()
	if isByteSlice(i.Type()) {
		set(VBytes{Nil: TFalse, B: x.sym.Fresh("makebytes", SBytes)})
		return
	}
	if n, ok := isIntLit(ln); ok && n <= 16 {
		e := make([]Value, n)
		for k := range e {
			e[k] = x.zero(st, elem)
		}
		obj := x.alloc(st, VArray{e})
		set(VSlice{Nil: TFalse, Arr: obj, Len: ln, Typ: i.Type()})
		return
	}
	ex := x
	arr := &VAbsArr{Len: ln, Elem: elem, Name: "make", ElemGen: func(st *State, idx Term) Value { return ex.zero(st, elem) }}
	obj := x.alloc(st, arr)
	set(VSlice{Nil: TFalse, Arr: obj, Len: ln, Typ: i.Type()})
}

func (x *Exec) sliceInstr(st *State, fr *Frame, i *ssa.Slice, set func(Value)) {
	base := x.force(st, x.eval(st, fr, i.X))
	if st.dead {
		return
	}
	var lo, hi Term
	hasLo, hasHi := i.Low != nil, i.High != nil
	if hasLo {
		lo = x.scalar(st, x.eval(st, fr, i.Low))
	}
	if hasHi {
		hi = x.scalar(st, x.eval(st, fr, i.High))
	}
	if i.Max != nil {
		x.unsupported(st, "3-index slice")
		return
	}
	switch b := base.(type) {
	case VPtr: // pointer to array
		if !x.derefCheck(st, b, "slice of nil array pointer", i.Pos()) {
			return
		}
		at := i.X.Type().Underlying().(*types.Pointer).Elem().Underlying().(*types.Array)
		if bt, ok := at.Elem().Underlying().(*types.Basic); ok && bt.Kind() == types.Uint8 {
			if at.Len() == 0 {
				set(VBytes{Nil: TFalse, B: Term{"bytes.empty", SBytes}})
			} else {
				set(VBytes{Nil: TFalse, B: x.sym.Fresh("bytes.arr", SBytes)})
			}
			return
		}
		if len(b.Loc.Path) != 0 {
			x.unsupported(st, "slice of embedded array")
			return
		}
		n := at.Len()
		l, h := int64(0), n
		if hasLo {
			v, ok := isIntLit(lo)
			if !ok {
				x.unsupported(st, "symbolic slice bound on array")
				return
			}
			l = v
		}
		if hasHi {
			v, ok := isIntLit(hi)
			if !ok {
				x.unsupported(st, "symbolic slice bound on array")
				return
			}
			h = v
		}
		if l < 0 || h > n || l > h {
			x.oblige(st, "bounds", "slice bounds out of range", TFalse, i.Pos(), nil)
			st.dead = true
			return
		}
		set(VSlice{Nil: TFalse, Arr: b.Loc.Obj, Lo: int(l), Len: IntLit(h - l), Typ: i.Type()})
	case VSlice:
		if !hasLo && !hasHi {
			set(b)
			return
		}
		l := IntLit(0)
		if hasLo {
			l = lo
		}
		h := b.Len
		if hasHi {
			h = hi
		}
		// note: re-slicing up to cap is legal in Go; this engine only accepts hi <= len
		x.oblige(st, "bounds", "slice bounds out of range", And(Le(IntLit(0), l), Le(l, h), Le(h, b.Len)), i.Pos(), nil)
		st.assume(And(Le(IntLit(0), l), Le(l, h), Le(h, b.Len)))
		lv, lok := isIntLit(l)
		if b.Arr >= 0 {
			if _, conc := st.heap[b.Arr].(VArray); conc && lok {
				set(VSlice{Nil: b.Nil, Arr: b.Arr, Lo: b.Lo + int(lv), Len: Sub(h, l), Typ: b.Typ})
				return
			}
			if abs, ok := st.heap[b.Arr].(*VAbsArr); ok {
				// a view on an abstract array: new abstract array whose cell k is the old cell l+k
				na := &VAbsArr{Len: Sub(h, l), Elem: abs.Elem, Name: abs.Name + "[:]"}
				for _, c := range abs.Cells {
					na.Cells = append(na.Cells, AbsCell{Idx: Sub(c.Idx, l), Val: c.Val})
				}
				if lok && lv == 0 {
					na.ElemGen = abs.ElemGen
				}
				x.noteAlias(st, "re-sliced abstract array is modelled as a copy")
				obj := x.alloc(st, na)
				set(VSlice{Nil: b.Nil, Arr: obj, Len: Sub(h, l), Typ: b.Typ})
				return
			}
		}
		if b.Arr < 0 {
			set(b)
			return
		}
		x.unsupported(st, "slice of slice with symbolic offset")
	case VBytes:
		if !hasLo && !hasHi {
			set(b)
			return
		}
		set(VBytes{Nil: b.Nil, B: x.sym.Fresh("bytes.sub", SBytes)})
	case VScalar: // string
		ln := App(SInt, "slen", b.T)
		l := IntLit(0)
		if hasLo {
			l = lo
		}
		h := ln
		if hasHi {
			h = hi
		}
		x.oblige(st, "bounds", "string slice bounds out of range", And(Le(IntLit(0), l), Le(l, h), Le(h, ln)), i.Pos(), nil)
		st.assume(And(Le(IntLit(0), l), Le(l, h), Le(h, ln)))
		set(VScalar{App(SStr, "str.sub", b.T, l, h)})
	default:
		x.unsupported(st, fmt.Sprintf("slice of %T", base))
	}
}

func (x *Exec) noteAlias(st *State, s string) {
	x.notes[s] = true
}

// absCell returns the path index of the cell for idx in the abstract array
// stored at obj, materialising it if needed. It may fork on index equality.
func (x *Exec) absCell(st *State, obj int, idx Term) (int, bool) {
	arr := st.heap[obj].(*VAbsArr)
	for k, c := range arr.Cells {
		if c.Idx.S == idx.S {
			return k, true
		}
	}
	// may alias an existing cell?
	for k, c := range arr.Cells {
		eq := Eq(c.Idx, idx)
		if eq.IsFalse() {
			continue
		}
		if x.feasible(st, eq) {
			if x.feasible(st, Not(eq)) {
				other := st.clone()
				other.assume(Not(eq))
				x.push(other) // re-executes the current instruction with the disequality known
				st.assume(eq)
			}
			return k, true
		}
		st.assume(Not(eq))
	}
	var val Value
	if arr.ElemGen != nil {
		val = arr.ElemGen(st, idx)
	} else {
		name := fmt.Sprintf("%s[%s]", arr.Name, idx.S)
		if arr.Havocked {
			name = "havoc:" + name
		}
		val = VLazy{Typ: arr.Elem, Name: name}
	}
	arr = st.heap[obj].(*VAbsArr) // ElemGen may have touched the heap
	cp := *arr
	cp.Cells = append(append([]AbsCell(nil), arr.Cells...), AbsCell{Idx: idx, Val: val})
	st.heap[obj] = &cp
	x.elemAssume(st, obj, len(cp.Cells)-1)
	return len(cp.Cells) - 1, true
}

func (x *Exec) indexAddr(st *State, fr *Frame, i *ssa.IndexAddr, set func(Value)) {
	base := x.force(st, x.eval(st, fr, i.X))
	idx := x.scalar(st, x.eval(st, fr, i.Index))
	if st.dead {
		return
	}
	switch b := base.(type) {
	case VPtr: // pointer to array
		if !x.derefCheck(st, b, "index of nil array pointer", i.Pos()) {
			return
		}
		n := i.X.Type().Underlying().(*types.Pointer).Elem().Underlying().(*types.Array).Len()
		k, ok := isIntLit(idx)
		if !ok {
			x.unsupported(st, "symbolic index into array")
			return
		}
		if k < 0 || k >= n {
			x.oblige(st, "bounds", "index out of range", TFalse, i.Pos(), nil)
			st.dead = true
			return
		}
		set(VPtr{Nil: TFalse, Loc: b.Loc.Sub(int(k)), Typ: i.Type()})
	case VSlice:
		inb := And(Le(IntLit(0), idx), Lt(idx, b.Len))
		x.oblige(st, "bounds", "index out of range", inb, i.Pos(), nil)
		if inb.IsFalse() {
			st.dead = true
			return
		}
		st.assume(inb)
		if b.Arr < 0 {
			st.dead = true
			return
		}
		switch arr := st.heap[b.Arr].(type) {
		case VArray:
			if k, ok := isIntLit(idx); ok {
				set(VPtr{Nil: TFalse, Loc: (&Loc{Obj: b.Arr}).Sub(b.Lo + int(k)), Typ: i.Type()})
				return
			}
			// symbolic index into a concrete array: fork over the feasible positions
			n, _ := isIntLit(b.Len)
			first := true
			for k := int64(0); k < n; k++ {
				eq := Eq(idx, IntLit(k))
				if !x.feasible(st, eq) {
					continue
				}
				target := st
				if !first {
					target = st.clone()
				}
				_ = arr
				if first {
					first = false
					// the remaining alternatives are explored from clones made before assuming
					for k2 := k + 1; k2 < n; k2++ {
						eq2 := Eq(idx, IntLit(k2))
						if x.feasible(st, eq2) {
							c := st.clone()
							c.assume(eq2)
							cf := c.top()
							cf.env[i] = VPtr{Nil: TFalse, Loc: (&Loc{Obj: b.Arr}).Sub(b.Lo + int(k2)), Typ: i.Type()}
							cf.ip++
							x.push(c)
						}
					}
					target.assume(eq)
					set(VPtr{Nil: TFalse, Loc: (&Loc{Obj: b.Arr}).Sub(b.Lo + int(k)), Typ: i.Type()})
					return
				}
			}
			st.dead = true
		case *VAbsArr:
			k, ok := x.absCell(st, b.Arr, idx)
			if !ok || st.dead {
				return
			}
			set(VPtr{Nil: TFalse, Loc: (&Loc{Obj: b.Arr}).Sub(k), Typ: i.Type()})
		default:
			x.unsupported(st, fmt.Sprintf("indexaddr into %T", arr))
		}
	case VBytes:
		// reading one byte: an uninterpreted function of the bytes and the index. The cell is read-only
		// (a store through it is outside the subset, see byteCell in store).
		ln := App(SInt, "bytes.len", b.B)
		x.oblige(st, "bounds", "index out of range", And(Ge(idx, IntLit(0)), Lt(idx, ln)), i.Pos(), nil)
		st.assume(And(Ge(idx, IntLit(0)), Lt(idx, ln)))
		f := x.sym.Func("bytes.at", []Sort{SBytes, SInt}, SInt)
		at := App(SInt, f, b.B, idx)
		st.assume(And(Ge(at, IntLit(0)), Le(at, IntLit(255))))
		obj := x.alloc(st, byteCell{VScalar{at}})
		set(VPtr{Nil: TFalse, Loc: &Loc{Obj: obj}, Typ: i.Type()})
	default:
		x.unsupported(st, fmt.Sprintf("indexaddr on %T", base))
	}
}

func (x *Exec) indexInstr(st *State, fr *Frame, i *ssa.Index, set func(Value)) {
	base := x.force(st, x.eval(st, fr, i.X))
	idx := x.scalar(st, x.eval(st, fr, i.Index))
	if st.dead {
		return
	}
	switch b := base.(type) {
	case VScalar: // string
		ln := App(SInt, "slen", b.T)
		x.oblige(st, "bounds", "string index out of range", And(Le(IntLit(0), idx), Lt(idx, ln)), i.Pos(), nil)
		st.assume(And(Le(IntLit(0), idx), Lt(idx, ln)))
		set(VScalar{App(SInt, "str.at", b.T, idx)})
	case VArray:
		k, ok := isIntLit(idx)
		if !ok || int(k) >= len(b.E) || k < 0 {
			x.unsupported(st, "symbolic index of array value")
			return
		}
		set(x.force(st, b.E[k]))
	default:
		x.unsupported(st, fmt.Sprintf("index on %T", base))
	}
}

// --------------------------------------------------------------------------
// maps

func optStrVal(sel Term) (Term, Term) {
	return App(SBool, "is-some", sel), App(SStr, "val", sel)
}

func (x *Exec) mapLookupSS(st *State, m VMap, key Term) (val Term, ok Term) {
	if m.Obj < 0 {
		return x.sym.StrLit(""), TFalse
	}
	a := st.heap[m.Obj].(MapSS).A
	sel := App(SOptS, "select", a, key)
	present, v := optStrVal(sel)
	return Ite(present, v, x.sym.StrLit("")), present
}

func (x *Exec) lookup(st *State, fr *Frame, i *ssa.Lookup, set func(Value)) {
	base := x.force(st, x.eval(st, fr, i.X))
	keyV := x.force(st, x.eval(st, fr, i.Index))
	if st.dead {
		return
	}
	switch b := base.(type) {
	case VScalar: // string index
		idx := x.scalar(st, keyV)
		ln := App(SInt, "slen", b.T)
		x.oblige(st, "bounds", "string index out of range", And(Le(IntLit(0), idx), Lt(idx, ln)), i.Pos(), nil)
		st.assume(And(Le(IntLit(0), idx), Lt(idx, ln)))
		set(VScalar{App(SInt, "str.at", b.T, idx)})
	case VMap:
		if isStringMap(b.Typ) {
			v, ok := x.mapLookupSS(st, b, x.scalar(st, keyV))
			if i.CommaOk {
				set(VTuple{[]Value{VScalar{v}, VScalar{ok}}})
			} else {
				set(VScalar{v})
			}
			return
		}
		val, ok := x.mapGenLookup(st, b, keyV)
		if st.dead {
			return
		}
		if i.CommaOk {
			set(VTuple{[]Value{val, VScalar{ok}}})
		} else {
			set(val)
		}
	default:
		x.unsupported(st, fmt.Sprintf("lookup on %T", base))
	}
}

func (x *Exec) keyTerm(st *State, k Value) (Term, bool) {
	switch kv := k.(type) {
	case VScalar:
		return kv.T, true
	}
	return Term{}, false
}

// mapGenLookup returns the value stored under key and whether it is present.
// When presence is symbolic the returned value is only meaningful if present;
// callers obtain the zero value otherwise by forking.
func (x *Exec) mapGenLookup(st *State, m VMap, key Value) (Value, Term) {
	elem := m.Typ.Underlying().(*types.Map).Elem()
	if m.Obj < 0 {
		return x.zero(st, elem), TFalse
	}
	kt, ok := x.keyTerm(st, key)
	if !ok {
		x.unsupported(st, "non scalar map key")
		return nil, TFalse
	}
	mg := st.heap[m.Obj].(*MapGen)
	find := func() (int, bool) {
		for k, e := range mg.Entries {
			if e.Key.S == kt.S {
				return k, true
			}
		}
		for k, e := range mg.Entries {
			eq := Eq(e.Key, kt)
			if eq.IsFalse() {
				continue
			}
			if x.feasible(st, eq) {
				if x.feasible(st, Not(eq)) {
					other := st.clone()
					other.assume(Not(eq))
					x.push(other)
					st.assume(eq)
				}
				return k, true
			}
			st.assume(Not(eq))
		}
		return -1, false
	}
	k, found := find()
	var ent MapEntry
	if found {
		ent = mg.Entries[k]
	} else {
		if mg.Sym {
			ent = MapEntry{Key: kt, Present: x.sym.Fresh(mg.Name+".has", SBool), Val: VLazy{Typ: elem, Name: fmt.Sprintf("%s[%s]", mg.Name, kt.S)}}
		} else {
			ent = MapEntry{Key: kt, Present: TFalse, Val: x.zero(st, elem)}
		}
		cp := *mg
		cp.Entries = append(append([]MapEntry(nil), mg.Entries...), ent)
		st.heap[m.Obj] = &cp
	}
	// materialise the stored value once (a lazily symbolic pointer/slice/map value must be the same
	// object at every lookup of this key)
	forceEntry := func(s *State) Value {
		cur, ok := s.heap[m.Obj].(*MapGen)
		if !ok {
			return x.force(s, ent.Val)
		}
		for i, e := range cur.Entries {
			if e.Key.S == kt.S {
				if _, lazy := e.Val.(VLazy); !lazy {
					return e.Val
				}
				v := x.force(s, e.Val)
				cp := *cur
				cp.Entries = append([]MapEntry(nil), cur.Entries...)
				cp.Entries[i].Val = v
				s.heap[m.Obj] = &cp
				return v
			}
		}
		return x.force(s, ent.Val)
	}
	if ent.Present.IsTrue() {
		return forceEntry(st), TTrue
	}
	if ent.Present.IsFalse() {
		return x.zero(st, elem), TFalse
	}
	// symbolic presence: fork
	ts, fs := x.fork(st, ent.Present, "mapkey-present")
	if fs != nil && fs != st {
		x.push(fs) // re-executes the lookup with presence decided
	}
	if ts == nil {
		if fs == st {
			return x.zero(st, elem), TFalse
		}
		return nil, TFalse
	}
	return forceEntry(st), TTrue
}

func (x *Exec) mapUpdate(st *State, fr *Frame, i *ssa.MapUpdate) {
	mv := x.force(st, x.eval(st, fr, i.Map))
	kv := x.force(st, x.eval(st, fr, i.Key))
	vv := x.eval(st, fr, i.Value)
	if st.dead {
		return
	}
	m, ok := mv.(VMap)
	if !ok {
		x.unsupported(st, fmt.Sprintf("mapupdate on %T", mv))
		return
	}
	x.oblige(st, "nil-map", "assignment to entry in nil map", Not(m.Nil), i.Pos(), nil)
	if m.Nil.IsTrue() || m.Obj < 0 {
		st.dead = true
		return
	}
	st.assume(Not(m.Nil))
	if isStringMap(m.Typ) {
		a := st.heap[m.Obj].(MapSS).A
		st.heap[m.Obj] = MapSS{A: App(SMapSS, "store", a, x.scalar(st, kv), App(SOptS, "some", x.scalar(st, vv)))}
		return
	}
	kt, ok := x.keyTerm(st, kv)
	if !ok {
		x.unsupported(st, "non scalar map key")
		return
	}
	mg := st.heap[m.Obj].(*MapGen)
	cp := *mg
	cp.Entries = nil
	replaced := false
	for _, e := range mg.Entries {
		if e.Key.S == kt.S {
			cp.Entries = append(cp.Entries, MapEntry{Key: kt, Present: TTrue, Val: vv})
			replaced = true
			continue
		}
		eq := Eq(e.Key, kt)
		if !eq.IsFalse() && x.feasible(st, eq) {
			// possible alias with an existing entry: drop the knowledge about that entry
			x.noteAlias(st, "map update with possibly aliasing symbolic key forgets the older entry")
			continue
		}
		cp.Entries = append(cp.Entries, e)
	}
	if !replaced {
		cp.Entries = append(cp.Entries, MapEntry{Key: kt, Present: TTrue, Val: vv})
	}
	cp.LenT = x.sym.Fresh(cp.Name+".len", SInt)
	st.assume(Ge(cp.LenT, IntLit(1)))
	st.heap[m.Obj] = &cp
}

// --------------------------------------------------------------------------
// range over maps / strings

type VIter struct {
	Over Value
	Typ  types.Type
	N    int
}

func (x *Exec) rangeInstr(st *State, fr *Frame, i *ssa.Range, set func(Value)) {
	v := x.force(st, x.eval(st, fr, i.X))
	set(VIter{Over: v, Typ: i.X.Type()})
}

func (x *Exec) nextInstr(st *State, fr *Frame, i *ssa.Next, set func(Value)) {
	it, ok := x.eval(st, fr, i.Iter).(VIter)
	if !ok {
		x.unsupported(st, "next on non iterator")
		return
	}
	okT := x.sym.Fresh("range.ok", SBool)
	if i.IsString {
		set(VTuple{[]Value{VScalar{okT}, VScalar{x.sym.Fresh("range.i", SInt)}, VScalar{x.sym.Fresh("range.r", SInt)}}})
		return
	}
	m, isMap := it.Over.(VMap)
	if !isMap {
		x.unsupported(st, "range over non map")
		return
	}
	mt := m.Typ.Underlying().(*types.Map)
	if m.Obj < 0 || m.Nil.IsTrue() {
		set(VTuple{[]Value{VScalar{TFalse}, x.zero(st, mt.Key()), x.zero(st, mt.Elem())}})
		return
	}
	if isStringMap(m.Typ) {
		k := x.sym.Fresh("range.k", SStr)
		a := st.heap[m.Obj].(MapSS).A
		sel := App(SOptS, "select", a, k)
		present, v := optStrVal(sel)
		st.assume(Implies(okT, present))
		st.assume(Implies(Eq(a, Term{"smap.empty", SMapSS}), Not(okT)))
		set(VTuple{[]Value{VScalar{okT}, VScalar{k}, VScalar{v}}})
		return
	}
	// generic map: an arbitrary present entry
	// the key is named after the frame and the instruction: a state forked inside the lookup below
	// re-executes this instruction and must meet the same key (a fresh key per re-execution never ends);
	// loops are cut, so a Next instruction runs once per frame on a path
	kv := x.symbolic(st, mt.Key(), fmt.Sprintf("range.k.%s.%s!f%d", fr.fn.Name(), i.Name(), fr.id))
	val, present := x.mapGenLookup(st, m, kv)
	if st.dead {
		return
	}
	st.assume(Implies(okT, present))
	if val == nil {
		val = x.zero(st, mt.Elem())
	}
	set(VTuple{[]Value{VScalar{okT}, kv, val}})
}

// freshName: a new name for a symbolic value of any sort (nothing is declared under it yet).
func (x *Exec) freshName(prefix string) string {
	x.callCounter++
	return fmt.Sprintf("%s!n%d", prefix, x.callCounter)
}

// --------------------------------------------------------------------------
// type assertions

// dynExclusive: an interface value has one dynamic type, so the tests "<id>.as.<T>.ok" of an opaque
// interface value against distinct concrete types exclude each other.
func (x *Exec) dynExclusive(st *State, id, t string) {
	if x.dynTests == nil {
		x.dynTests = map[string][]string{}
	}
	seen := false
	for _, o := range x.dynTests[id] {
		if o == t {
			seen = true
			continue
		}
		st.assume(Not(And(x.sym.Named(id+".as."+t+".ok", SBool), x.sym.Named(id+".as."+o+".ok", SBool))))
	}
	if !seen {
		x.dynTests[id] = append(x.dynTests[id], t)
	}
}

func (x *Exec) typeAssert(st *State, fr *Frame, i *ssa.TypeAssert, set func(Value)) {
	v := x.force(st, x.eval(st, fr, i.X))
	if st.dead {
		return
	}
	iv, ok := v.(VIface)
	if !ok {
		x.unsupported(st, fmt.Sprintf("typeassert on %T", v))
		return
	}
	_, toIface := i.AssertedType.Underlying().(*types.Interface)
	if iv.Dyn != nil {
		match := false
		if toIface {
			match = types.Implements(iv.Dyn, i.AssertedType.Underlying().(*types.Interface))
		} else {
			match = types.Identical(iv.Dyn, i.AssertedType)
		}
		okT := And(Not(iv.Nil), BoolLit(match))
		var res Value
		if match {
			if toIface {
				res = iv
			} else {
				res = iv.Val
			}
		} else {
			res = x.zero(st, i.AssertedType)
		}
		if i.CommaOk {
			set(VTuple{[]Value{res, VScalar{okT}}})
			return
		}
		x.oblige(st, "type-assert", "type assertion may fail", okT, i.Pos(), nil)
		if okT.IsFalse() {
			st.dead = true
			return
		}
		st.assume(okT)
		set(res)
		return
	}
	// opaque dynamic type
	if iv.Nil.IsTrue() {
		if i.CommaOk {
			set(VTuple{[]Value{x.zero(st, i.AssertedType), VScalar{TFalse}}})
			return
		}
		x.oblige(st, "type-assert", "type assertion on nil interface", TFalse, i.Pos(), nil)
		st.dead = true
		return
	}
	name := "typeassert"
	if iv.Id.S != "" {
		name = iv.Id.S + ".as." + typeShort(i.AssertedType)
	}
	okT := x.sym.Named(name+".ok", SBool)
	st.assume(Implies(iv.Nil, Not(okT)))
	if !toIface && iv.Id.S != "" {
		x.dynExclusive(st, iv.Id.S, typeShort(i.AssertedType))
	}
	var res Value
	if toIface {
		res = iv
	} else {
		res = x.symbolic(st, i.AssertedType, name)
		if p, isPtr := res.(VPtr); isPtr {
			// ASSUMPTION: interfaces do not hold typed nil pointers; the message payload of a
			// protobuf oneof wrapper (pb.X_Y{Y *Msg}) that is present is non-nil (protobuf-go decoding)
			st.assume(Implies(okT, Not(p.Nil)))
			x.notes["ASSUMED: interface values never hold typed nil pointers; present protobuf oneof wrappers carry a non-nil payload"] = true
			if pt, ok := i.AssertedType.Underlying().(*types.Pointer); ok && strings.Contains(types.TypeString(pt.Elem(), nil), "/pb.") && strings.Contains(typeShort(pt.Elem()), "_") {
				if stt, ok := pt.Elem().Underlying().(*types.Struct); ok && p.Loc != nil {
					for fi := 0; fi < stt.NumFields(); fi++ {
						if _, isPtrF := stt.Field(fi).Type().Underlying().(*types.Pointer); isPtrF {
							if fv, ok := x.force(st, x.load(st, p.Loc.Sub(fi))).(VPtr); ok {
								st.assume(Implies(okT, Not(fv.Nil)))
							}
						}
					}
				}
			}
			res = p
		}
	}
	if i.CommaOk {
		set(VTuple{[]Value{res, VScalar{okT}}})
		return
	}
	x.oblige(st, "type-assert", "type assertion may fail", okT, i.Pos(), nil)
	st.assume(okT)
	set(res)
}

// --------------------------------------------------------------------------
// channels (sequential ghost model: non-blocking sends only)

// A blocking send completes when the buffer has room (or, for an unbuffered channel, when a receiver is
// there: unknown, so it may complete); otherwise the goroutine blocks and does nothing further -- under
// partial correctness that path simply ends.
func (x *Exec) sendInstr(st *State, fr *Frame, in *ssa.Send) {
	cv, ok := x.force(st, x.eval(st, fr, in.Chan)).(VChan)
	if !ok {
		x.unsupported(st, "send on a non channel value")
		return
	}
	x.oblige(st, "chan", "send on nil channel blocks forever", Not(cv.Nil), in.Pos(), nil)
	// "site send assert e": e holds at every blocking send statement (ch <- v outside a select) of the unit
	// ("site send assert false": the unit never waits on a send); ch and val are bound
	if x.contract != nil && x.contract.Directives["site"] != nil && len(st.frames) > 0 && fr == st.frames[0] {
		x.siteAsserts(st, fr, "send", "", map[string]TV{"ch": {cv, cv.Typ}})
		if st.dead {
			return
		}
	}
	if cv.Obj >= 0 {
		if co, ok := st.heap[cv.Obj].(*ChanObj); ok && co.Cap.S != "" {
			room := Or(Eq(co.Cap, IntLit(0)), Lt(x.chanLen(st, cv), co.Cap))
			ts, _ := x.fork(st, room, "channel send does not block")
			if ts == nil {
				st.dead = true // blocks forever
				return
			}
			// the other state (buffer full) blocks: it is dropped
		}
	}
	x.chanSend(st, cv, x.eval(st, fr, in.X), in.Pos())
	fr.ip++
}

// A blocking receive yields a value when one is buffered or the channel is closed (zero value); what it
// yields is not tracked (an arbitrary value of the element type).
func (x *Exec) recvInstr(st *State, fr *Frame, i *ssa.UnOp, v Value, set func(Value)) {
	cv, ok := v.(VChan)
	if !ok {
		x.unsupported(st, "receive from a non channel value")
		return
	}
	elem := cv.Typ.Underlying().(*types.Chan).Elem()
	x.callCounter++
	val := x.symbolic(st, elem, fmt.Sprintf("recv!%d", x.callCounter))
	if i.CommaOk {
		set(VTuple{[]Value{val, VScalar{x.sym.Fresh("recv.ok", SBool)}}})
		return
	}
	set(val)
}

func (x *Exec) selectInstr(st *State, fr *Frame, i *ssa.Select, set func(Value)) {
	// a blocking select takes one of its ready cases (which one is not determined); if none can be ready
	// the goroutine blocks and the path ends
	// select with default: each ready case or the default may be taken. A send on a buffered channel is
	// ready iff the buffer has room (cap == 0: ready iff a receiver waits, unknown here); the default is
	// taken only if no case is ready.
	// "site select assert e": e holds at every select statement of the unit; blocking says whether the select
	// has no default case, selects(ch) whether ch is one of the channels it waits on
	if x.contract != nil && x.contract.Directives["site"] != nil && len(st.frames) > 0 && fr == st.frames[0] {
		x.curSelect = i
		x.siteAsserts(st, fr, "select", "", map[string]TV{"blocking": {VScalar{BoolLit(i.Blocking)}, types.Typ[types.Bool]}})
		x.curSelect = nil
		if st.dead {
			return
		}
	}
	n := len(i.States)
	choice := x.sym.Fresh("select.choice", SInt)
	lowest := int64(-1)
	if i.Blocking {
		lowest = 0 // no default case
	}
	st.assume(And(Le(IntLit(lowest), choice), Lt(choice, IntLit(int64(n)))))
	if !x.feasible(st, TTrue) {
		st.dead = true
		return
	}
	for j, s := range i.States {
		if s.Dir != types.SendOnly {
			continue
		}
		cv, ok := x.force(st, x.eval(st, st.top(), s.Chan)).(VChan)
		if !ok || cv.Obj < 0 {
			continue
		}
		co, ok := st.heap[cv.Obj].(*ChanObj)
		if !ok || co.Cap.S == "" {
			continue
		}
		room := Lt(x.chanLen(st, cv), co.Cap)
		st.assume(Implies(Eq(choice, IntLit(int64(j))), Or(Eq(co.Cap, IntLit(0)), room)))
		st.assume(Implies(Eq(choice, IntLit(-1)), Not(And(Gt(co.Cap, IntLit(0)), room))))
	}
	last := -1
	if i.Blocking {
		last = 0
	}
	for k := n - 1; k >= last; k-- {
		target := st
		if k > last {
			target = st.clone()
		}
		eq := Eq(choice, IntLit(int64(k)))
		target.assume(eq)
		tf := target.top()
		// recvOk: false when the chosen receive found the channel closed
		vals := []Value{VScalar{IntLit(int64(k))}, VScalar{x.sym.Fresh("select.recvok", SBool)}}
		if !x.feasible(target, TTrue) {
			continue // this case cannot be ready
		}
		dead := false
		for j, s := range i.States {
			if s.Dir == types.RecvOnly {
				vals = append(vals, x.symbolic(target, s.Chan.Type().Underlying().(*types.Chan).Elem(), x.freshName("select.recv")))
			}
			if j == k && s.Dir == types.SendOnly {
				cv, ok := x.force(target, x.eval(target, tf, s.Chan)).(VChan)
				if !ok {
					x.unsupported(target, "select send on non channel")
					dead = true
					break
				}
				x.chanSend(target, cv, x.eval(target, tf, s.Send), i.Pos())
			}
		}
		if dead || target.dead {
			continue
		}
		tf.env[i] = VTuple{vals}
		tf.ip++
		if target != st {
			x.push(target)
		}
	}
}

// chanSend logs a successful send. Sending on a closed channel panics.
func (x *Exec) chanSend(st *State, c VChan, v Value, pos token.Pos) {
	if c.Obj < 0 {
		return
	}
	co, ok := st.heap[c.Obj].(*ChanObj)
	if !ok {
		return
	}
	closed := co.Closed
	if closed.S == "" {
		closed = TFalse
	}
	x.oblige(st, "chan", "send on closed channel", Not(closed), pos, nil)
	cp := *co
	cp.Sent = append(append([]Value(nil), co.Sent...), v)
	st.heap[c.Obj] = &cp
}

// elemAssume applies the "elem <name-regexp> assume <expr>" directives of the
// contract under verification to a freshly materialised element of a symbolic
// input slice (element preconditions: what the producers of the slice establish).
func (x *Exec) elemAssume(st *State, obj, cell int) {
	if x.contract == nil || x.contract.Directives["elem"] == nil {
		return
	}
	arr := st.heap[obj].(*VAbsArr)
	if os.Getenv("GOVC_DEBUG_ELEM") != "" {
		fmt.Fprintf(os.Stderr, "elem of array %q (havocked=%v)\n", arr.Name, arr.Havocked)
	}
	if arr.Havocked || arr.ElemGen != nil {
		return
	}
	for _, d := range x.contract.Directives["elem"] {
		parts := strings.SplitN(d, " assume ", 2)
		if len(parts) != 2 {
			continue
		}
		re, err := regexp.Compile(strings.TrimSpace(parts[0]))
		if err != nil || !re.MatchString(arr.Name) {
			continue
		}
		v := x.force(st, arr.Cells[cell].Val)
		// keep the forced value
		cp := *st.heap[obj].(*VAbsArr)
		cp.Cells = append([]AbsCell(nil), cp.Cells...)
		cp.Cells[cell].Val = v
		st.heap[obj] = &cp
		env := &SpecEnv{x: x, st: st, vars: map[string]TV{"elem": {v, arr.Elem}}}
		if x.fn.Pkg != nil {
			env.pkg = x.fn.Pkg.Pkg
		}
		// the parameters of the function under verification are in scope ("elem.ch != conn.ch")
		if len(st.frames) > 0 {
			f0 := st.frames[0]
			for _, p := range f0.fn.Params {
				if pv, ok := f0.env[p]; ok {
					env.vars[p.Name()] = TV{pv, p.Type()}
				}
			}
		}
		x.extendEnv(env, st, st.top())
		t, err := env.EvalBool(parts[1])
		if err != nil {
			x.unsupported(st, err.Error())
			return
		}
		st.assume(t)
	}
}

// chanLen is len(ch): the elements buffered when the channel was first observed plus the sends of this path.
func (x *Exec) chanLen(st *State, ch VChan) Term {
	if ch.Obj < 0 {
		return IntLit(0)
	}
	co, ok := st.heap[ch.Obj].(*ChanObj)
	if !ok {
		return IntLit(0)
	}
	base := co.Len
	if base.S == "" {
		base = IntLit(0)
	}
	return Add(base, IntLit(int64(len(co.Sent))))
}

// byteCell is the read-only heap cell produced by indexing a []byte.
type byteCell struct{ V Value }
