package main

// Verifying one function against its contract and discharging the obligations.

import (
	"fmt"
	"go/types"
	"os"
	"path/filepath"
	"strings"
	"sync"
	"time"

	"golang.org/x/tools/go/ssa"
)

type FuncReport struct {
	Key         string
	Contract    bool
	Obligations []*Obligation
	Unsupported []string
	Paths       int
	Returns     int
	Intrinsics  []string
	Inlined     []string
	UsedContr   []string
	Notes       []string
	Seconds     float64
	FeasCalls   int
	Unreached   []string // blocks of the function no explored path entered (panic blocks excluded): a vacuity indicator
}

type VerifyOpts struct {
	Props         []string // obligations are kept only if tagged with one of these (nil = all)
	PanicProps    []string
	AssertProps   []string
	Overflow      []string
	Timeout       int
	OutDir        string
	Setup         func(x *Exec, st *State, fr *Frame)
	OnReturn      func(x *Exec, st *State, fr *Frame, results []Value)
	MaxPaths      int
	ForceContract []string
	SQLProps      []string
	TxProps       []string
}

func (p *Program) Explore(key string, opts *VerifyOpts) (*Exec, *FuncReport, error) {
	fn := p.lookupFunc(key)
	if fn == nil {
		return nil, nil, fmt.Errorf("function %s not found", key)
	}
	if fn.Blocks == nil {
		return nil, nil, fmt.Errorf("function %s has no body", key)
	}
	start := time.Now()
	x := NewExec(p, fn)
	x.panicProps = opts.PanicProps
	x.assertProps = opts.AssertProps
	if x.assertProps == nil {
		x.assertProps = opts.PanicProps
	}
	x.overflowProps = opts.Overflow
	x.sqlProps = opts.SQLProps
	x.txProps = opts.TxProps
	if opts.MaxPaths > 0 {
		x.maxPaths = opts.MaxPaths
	}
	for _, k := range opts.ForceContract {
		x.forceContract[k] = true
	}
	x.hooks = &Hooks{}
	x.incr = NewIncrSolver(p.spec.text)
	defer x.incr.Close()
	ct := p.contracts.byKey[key]
	x.contract = ct

	st := &State{heap: map[int]Value{}}
	var args []Value
	for i, prm := range fn.Params {
		v := x.symbolic(st, prm.Type(), prm.Name())
		if i == 0 && fn.Signature.Recv() != nil {
			if pv, ok := v.(VPtr); ok {
				st.assume(Not(pv.Nil)) // methods are verified for non-nil receivers
			}
		}
		args = append(args, v)
	}
	for _, fv := range fn.FreeVars {
		v := x.symbolic(st, fv.Type(), fv.Name())
		if pv, ok := v.(VPtr); ok {
			st.assume(Not(pv.Nil)) // captured variables are addressed through non-nil cells
		}
		args = append(args, v)
	}
	fr := x.pushFrame(st, fn, args, nil, false)
	if opts.Setup != nil {
		opts.Setup(x, st, fr)
	}
	if ct != nil {
		if err := x.applyDirectives(st, fr, ct, args); err != nil {
			return nil, nil, err
		}
		x.loopCompleteObligations(st, fr, ct)
	}
	if ct != nil {
		env := x.specEnvFor(st, fn, args, nil, nil)
		x.extendEnv(env, st, fr)
		for _, cl := range ct.Requires {
			t, err := env.EvalBool(cl.Text)
			if err != nil {
				return nil, nil, err
			}
			st.assume(t)
		}
	}
	// re-snapshot the entry heap after preconditions materialised inputs
	snap := make(map[int]Value, len(st.heap))
	for k, v := range st.heap {
		snap[k] = v
	}
	fr.entryHeap = snap
	fr.onReturn = func(st *State, fr *Frame, results []Value) {
		if ct != nil {
			env := x.specEnvFor(st, fn, args, results, fr.entryHeap)
			x.bindLocals(env, fr)
			x.extendEnv(env, st, fr)
			for _, cl := range ct.Ensures {
				t, err := env.EvalBool(cl.Text)
				if err != nil {
					x.unsupported(st, err.Error())
					return
				}
				x.obligeAt(st, fn, "ensures", cl.Text, t, cl.Where, ct.clauseProps(cl))
			}
		}
		if opts.OnReturn != nil {
			opts.OnReturn(x, st, fr, results)
		}
	}
	// vacuity: the preconditions must be satisfiable
	if !x.feasible(st, TTrue) {
		x.unsup = append(x.unsup, "preconditions of "+key+" are unsatisfiable (vacuous contract)")
	}
	x.run(st)
	rep := &FuncReport{Key: key, Contract: ct != nil, Obligations: x.obls, Unsupported: x.unsup, Paths: x.paths, Returns: x.returns,
		Intrinsics: sortedKeys(x.usedExt), Inlined: sortedKeys(x.inlined), UsedContr: sortedKeys(x.usedContracts), Notes: sortedKeys(x.notes)}
	if x.incr != nil {
		rep.FeasCalls = x.incr.Calls
	}
	if len(x.unsup) == 0 {
		for _, b := range fn.Blocks {
			if x.visited[b] || isPanicBlock(b) || len(b.Instrs) == 0 || b == fn.Recover {
				continue
			}
			// synthetic blocks (run-defers epilogues, range-loop scaffolding) carry no source position
			hasPos := false
			for _, in := range b.Instrs {
				if in.Pos().IsValid() {
					hasPos = true
				}
			}
			if !hasPos {
				continue
			}
			// a block that only leads to a panic (util.Assert failure handlers) is not interesting either
			if len(b.Succs) == 1 && isPanicBlock(b.Succs[0]) {
				continue
			}
			rep.Unreached = append(rep.Unreached, fmt.Sprintf("block %d @ %s", b.Index, x.prog.pos(b.Instrs[0].Pos())))
		}
	}
	if opts.Props != nil {
		var keep []*Obligation
		for _, o := range rep.Obligations {
			if intersects(o.Props, opts.Props) {
				keep = append(keep, o)
			}
		}
		rep.Obligations = keep
	}
	rep.Seconds = time.Since(start).Seconds()
	return x, rep, nil
}

func intersects(a, b []string) bool {
	for _, x := range a {
		for _, y := range b {
			if x == y {
				return true
			}
		}
	}
	return false
}

func (x *Exec) obligeAt(st *State, fn *ssa.Function, kind, name string, goal Term, where string, props []string) {
	trivial := goal.IsTrue()
	if trivial {
		// contract-level obligations that the term rewriter already reduced to true are recorded as
		// discharged by it (so that evidence counts them); implicit safety checks that fold are not
		switch kind {
		case "ensures", "requires", "guarantee", "invariant-entry", "invariant-preserved", "site", "stmt-binding", "tx-typestate", "sql", "loop-exit", "contract":
		default:
			return
		}
	}
	key := kind + "|" + name + "|" + where + "|" + goal.S + "|" + termsKey(st.pc)
	if x.oblSeen[key] {
		return
	}
	x.oblSeen[key] = true
	x.obls = append(x.obls, &Obligation{Name: name, Kind: kind, Func: fn.String(), Pos: where, Props: props,
		PC: append([]Term(nil), st.pc...), Goal: goal, Trace: append([]string(nil), st.trace...)})
	if trivial {
		x.obls[len(x.obls)-1].Result = &SolveResult{Status: "unsat", Solver: "term-rewriting"}
	}
}

// declsFor renders the declarations needed by the given text.
func (x *Exec) declsFor(text string) string {
	c := x.sym
	var b strings.Builder
	var usedLits []string
	for _, s := range c.litOrder {
		if c.isPreset[c.lits[s]] || strings.Contains(text, c.lits[s]) {
			usedLits = append(usedLits, s)
		}
	}
	for _, s := range usedLits {
		if !c.isPreset[c.lits[s]] {
			fmt.Fprintf(&b, "(declare-const %s Str) ; %q\n", c.lits[s], s)
		}
		fmt.Fprintf(&b, "(assert (= (slen %s) %d))\n", c.lits[s], len(s))
	}
	if len(usedLits) > 1 {
		b.WriteString("(assert (distinct")
		for _, s := range usedLits {
			b.WriteString(" " + c.lits[s])
		}
		b.WriteString("))\n")
	}
	for _, d := range c.decls {
		if !strings.Contains(text, d.Name) {
			continue
		}
		if d.Args != nil {
			as := make([]string, len(d.Args))
			for i, a := range d.Args {
				as[i] = string(a)
			}
			fmt.Fprintf(&b, "(declare-fun %s (%s) %s)\n", d.Name, strings.Join(as, " "), d.Sort)
		} else {
			fmt.Fprintf(&b, "(declare-const %s %s)\n", d.Name, d.Sort)
		}
	}
	return b.String()
}

func (x *Exec) queryFor(o *Obligation, idx int) *Query {
	var asserts []string
	var all strings.Builder
	for _, t := range o.PC {
		asserts = append(asserts, t.S)
		all.WriteString(t.S)
		all.WriteByte('\n')
	}
	all.WriteString(o.Goal.S)
	q := &Query{
		Name:    fmt.Sprintf("%s.%03d.%s", shortFunc(o.Func), idx, o.Kind),
		Prelude: x.prog.spec.text,
		Decls:   x.declsFor(all.String()),
		Asserts: asserts,
		Goal:    o.Goal,
		Comment: fmt.Sprintf("obligation: %s\nkind: %s\nfunction: %s\nat: %s\npath: %s", o.Name, o.Kind, o.Func, o.Pos, strings.Join(o.Trace, " ")),
	}
	return q
}

func shortFunc(s string) string {
	if i := strings.LastIndex(s, "/"); i >= 0 {
		s = s[i+1:]
	}
	return s
}

// Discharge runs the solvers on every obligation of the report.
func (x *Exec) Discharge(rep *FuncReport, outDir string, timeoutS, workers int) {
	var wg sync.WaitGroup
	sem := make(chan struct{}, workers)
	dir := filepath.Join(outDir, sanitizeFile(rep.Key))
	_ = os.RemoveAll(dir)
	for i, o := range rep.Obligations {
		if o.Result != nil {
			continue
		}
		q := x.queryFor(o, i)
		wg.Add(1)
		sem <- struct{}{}
		go func(o *Obligation, q *Query) {
			defer wg.Done()
			defer func() { <-sem }()
			r := q.Solve(dir, timeoutS)
			o.Result = &r
		}(o, q)
	}
	wg.Wait()
}

var _ = types.Typ

// applyDirectives interprets the engine directives of a contract block.
func (x *Exec) applyDirectives(st *State, fr *Frame, ct *Contract, args []Value) error {
	fn := fr.fn
	for _, d := range ct.Directives["ghostdb"] {
		if st.ghost == nil {
			st.ghost = &Ghost{}
		}
		g := NewGhostDB(x, st, x.prog.schema)
		g.mode = strings.TrimSpace(d)
		st.ghost.db = g
		if g.mode == "coroutine" {
			g.advanceClock(st)
		}
	}
	for _, d := range ct.Directives["stmt"] {
		parts := strings.Fields(d)
		if len(parts) != 2 {
			return fmt.Errorf("%s: stmt directive wants <param> <CONSTANT>", ct.Where)
		}
		idx := -1
		for i, p := range fn.Params {
			if p.Name() == parts[0] {
				idx = i
			}
		}
		if idx < 0 {
			return fmt.Errorf("%s: no parameter %s", ct.Where, parts[0])
		}
		pkgPath := fn.Pkg.Pkg.Path()
		text, ok := x.prog.constString(pkgPath, parts[1])
		if !ok {
			return fmt.Errorf("%s: no string constant %s in %s", ct.Where, parts[1], pkgPath)
		}
		stmts, err := ParseSQL(text)
		if err != nil || len(stmts) != 1 {
			// a statement outside the SQL subset: reported as a failed obligation
			x.oblige(st, "sql", fmt.Sprintf("%s is outside the verified SQL subset: %v", parts[1], err), TFalse, fn.Pos(), x.sqlProps)
			// nothing can be said about a function whose statement cannot be read: the path ends here (going on
			// would report the unbound statement as a second, misleading failure)
			st.dead = true
			return nil
		}
		p := args[idx].(VPtr)
		st.heap[p.Loc.Obj] = &SQLStmtObj{Text: text, Stmt: stmts[0], Name: parts[1]}
		st.assume(Not(p.Nil))
	}
	return nil
}
