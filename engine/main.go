package main

import (
	"flag"
	"fmt"
	"os"
	"strings"
)

func loadAll(repo, specDir string, patterns []string) (*Program, error) {
	if len(patterns) != 1 || patterns[0] != "./..." {
		patterns = append(patterns, "./internal/app/subsystems/aio/store/sqlite", "./internal/kernel/t_aio")
	}
	prog, err := LoadProgram(repo, patterns)
	if err != nil {
		return nil, err
	}
	cs, err := LoadContracts(repo)
	if err != nil {
		return nil, err
	}
	prog.contracts = cs
	ddl, ok := prog.constString(repoModule+"/internal/app/subsystems/aio/store/sqlite", "CREATE_TABLE_STATEMENT")
	if !ok {
		return nil, fmt.Errorf("sqlite CREATE_TABLE_STATEMENT not found")
	}
	schema, err := SchemaFromDDL(ddl)
	if err != nil {
		return nil, err
	}
	prog.schema = schema
	sp, err := LoadSpec(specDir, schema.SMT())
	if err != nil {
		return nil, err
	}
	prog.spec = sp
	return prog, nil
}

func main() {
	if len(os.Args) < 2 {
		fmt.Fprintln(os.Stderr, "usage: govc <func|check|list> ...")
		os.Exit(2)
	}
	switch os.Args[1] {
	case "func":
		cmdFunc(os.Args[2:])
	case "list":
		cmdList(os.Args[2:])
	case "check":
		os.Exit(cmdCheck(os.Args[2:]))
	default:
		fmt.Fprintln(os.Stderr, "unknown command", os.Args[1])
		os.Exit(2)
	}
}

func cmdList(args []string) {
	fs := flag.NewFlagSet("list", flag.ExitOnError)
	repo := fs.String("repo", "/repo", "repository")
	pat := fs.String("pkgs", "./...", "package patterns")
	_ = fs.Parse(args)
	prog, err := loadAll(*repo, "/verif/spec", strings.Fields(*pat))
	if err != nil {
		fmt.Fprintln(os.Stderr, err)
		os.Exit(2)
	}
	for _, k := range sortedKeys(prog.funcs) {
		if len(fs.Args()) > 0 && !strings.Contains(k, fs.Arg(0)) {
			continue
		}
		if prog.inRepo(prog.funcs[k]) {
			fmt.Println(k)
		}
	}
}

func cmdFunc(args []string) {
	fs := flag.NewFlagSet("func", flag.ExitOnError)
	repo := fs.String("repo", "/repo", "repository")
	pat := fs.String("pkgs", "./...", "package patterns")
	out := fs.String("out", "/verif/out/func", "query directory")
	timeout := fs.Int("timeout", 10, "solver timeout (s)")
	verbose := fs.Bool("v", false, "print every obligation")
	_ = fs.Parse(args)
	prog, err := loadAll(*repo, "/verif/spec", strings.Fields(*pat))
	if err != nil {
		fmt.Fprintln(os.Stderr, err)
		os.Exit(2)
	}
	for _, key := range fs.Args() {
		opts := &VerifyOpts{PanicProps: []string{"C13"}, SQLProps: []string{"SQL"}, TxProps: []string{"TX"}}
		if ct := prog.contracts.byKey[key]; ct != nil && ct.Directives["overflow"] != nil {
			opts.Overflow = []string{"OVERFLOW"}
		}
		x, rep, err := prog.Explore(key, opts)
		if err != nil {
			fmt.Println("ERROR", key, err)
			continue
		}
		x.Discharge(rep, *out, *timeout, 16)
		printReport(rep, *verbose)
	}
}

func printReport(rep *FuncReport, verbose bool) {
	ok, bad := 0, 0
	for _, o := range rep.Obligations {
		if o.Result != nil && o.Result.Status == "unsat" {
			ok++
		} else {
			bad++
		}
	}
	fmt.Printf("== %s: paths=%d returns=%d obligations=%d discharged=%d failed=%d unsupported=%d (%.1fs, %d feasibility calls)\n",
		rep.Key, rep.Paths, rep.Returns, len(rep.Obligations), ok, bad, len(rep.Unsupported), rep.Seconds, rep.FeasCalls)
	for _, u := range rep.Unsupported {
		fmt.Println("   UNSUPPORTED:", u)
	}
	for _, u := range rep.Unreached {
		fmt.Println("   UNREACHED:", u)
	}
	for _, o := range rep.Obligations {
		st := "?"
		if o.Result != nil {
			st = o.Result.Status
		}
		if verbose || st != "unsat" {
			fmt.Printf("   [%s] %s: %s @ %s props=%v\n", st, o.Kind, o.Name, o.Pos, o.Props)
			if st != "unsat" && o.Result != nil {
				fmt.Printf("        query: %s\n", o.Result.File)
			}
		}
	}
	if verbose {
		fmt.Println("   intrinsics:", rep.Intrinsics)
		fmt.Println("   inlined:", rep.Inlined)
		fmt.Println("   notes:", rep.Notes)
	}
}
