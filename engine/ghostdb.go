package main

// The abstract database ghost: for each table a chain of versions. A version
// is identified by a constant of sort Ver; the row of version v at key k is
// the term (row.<table> v k). The defining facts of a version (the layer
// equation, the rely relation, key consistency) are added to the path
// condition lazily, for exactly the keys the path talks about. All of it is
// quantifier free; "for all keys" goals are skolemised by the engine.

import (
	"fmt"
	"go/types"
	"strings"

	"golang.org/x/tools/go/ssa"
)

type TableVer struct {
	Table  *Table
	Ver    Term
	Parent *TableVer
	// Layer gives the row at key k of this version from the parent row.
	Layer func(st *State, k Term, old Term) Term
	// Rely names a two-state relation (spec function rely.<table>) between parent and this version.
	Rely string
	Tag  string
}

type YieldRec struct {
	Kind     string // store, router, sender, rely
	Pre      map[string]*TableVer
	Post     map[string]*TableVer
	Now      Term
	Cmds     []*CmdRec
	Failed   bool
	Pos      string
	Readonly bool
	Payload  Value
	Batch    bool
}

type CmdRec struct {
	Kind   string
	Spec   *CmdSpec
	Args   []Term
	Result Value
	Cmd    TV
	Eval   *cmdEval
}

type GhostDB struct {
	schema     *Schema
	cur        map[string]*TableVer
	inst       map[string]bool
	yields     []*YieldRec
	now        Term
	keys       []Term // keys mentioned so far (used to instantiate universal hypotheses)
	x          *Exec
	mode       string
	entry      map[string]*TableVer
	nver       *int
	stmts      map[int]*SQLStmt // statement objects by heap id (store handlers)
	maxSort    map[string]Term
	txLog      []string
	execLog    []execRec
	lastSetHit *setHit
	setReads   []*setRead
	calleeLin  []*linPoint
	now0       Term
}

func NewGhostDB(x *Exec, st *State, schema *Schema) *GhostDB {
	n := 0
	g := &GhostDB{schema: schema, cur: map[string]*TableVer{}, inst: map[string]bool{}, x: x, nver: &n, stmts: map[int]*SQLStmt{}, maxSort: map[string]Term{}}
	for _, name := range schema.Order {
		if name == "migrations" {
			continue
		}
		g.cur[name] = g.newVer(schema.Tables[name], nil, "init")
	}
	g.entry = map[string]*TableVer{}
	for k, v := range g.cur {
		g.entry[k] = v
	}
	return g
}

func (g *GhostDB) clone() *GhostDB {
	n := *g
	n.cur = make(map[string]*TableVer, len(g.cur))
	for k, v := range g.cur {
		n.cur[k] = v
	}
	n.inst = make(map[string]bool, len(g.inst))
	for k, v := range g.inst {
		n.inst[k] = v
	}
	n.yields = append([]*YieldRec(nil), g.yields...)
	n.keys = append([]Term(nil), g.keys...)
	n.maxSort = make(map[string]Term, len(g.maxSort))
	for k, v := range g.maxSort {
		n.maxSort[k] = v
	}
	return &n
}

func (g *GhostDB) newVer(t *Table, parent *TableVer, tag string) *TableVer {
	*g.nver++
	v := g.x.sym.Named(fmt.Sprintf("%s!v%d.%s", t.Name, *g.nver, tag), "Ver")
	return &TableVer{Table: t, Ver: v, Parent: parent, Tag: tag}
}

func (g *GhostDB) snapshot() map[string]*TableVer {
	m := make(map[string]*TableVer, len(g.cur))
	for k, v := range g.cur {
		m[k] = v
	}
	return m
}

func (g *GhostDB) noteKey(k Term) {
	for _, e := range g.keys {
		if e.S == k.S {
			return
		}
	}
	g.keys = append(g.keys, k)
}

// rowAt returns the row term of version tv at key k and makes sure the facts
// defining it are part of the path condition.
func (g *GhostDB) rowAt(st *State, tv *TableVer, k Term) Term {
	t := tv.Table
	row := App(rowSort(t.Name), "row."+t.Name, tv.Ver, k)
	key := tv.Ver.S + "|" + k.S
	if g.inst[key] {
		return row
	}
	g.inst[key] = true
	switch {
	case tv.Layer != nil:
		old := g.rowAt(st, tv.Parent, k)
		st.assume(Eq(row, tv.Layer(st, k, old)))
	case tv.Rely != "":
		old := g.rowAt(st, tv.Parent, k)
		st.assume(App(SBool, tv.Rely+"."+t.Name, old, row))
		g.keyFacts(st, t, row, k)
	default:
		g.keyFacts(st, t, row, k)
	}
	return row
}

// keyFacts: a present row carries its key (tables are keyed by a unique column),
// and satisfies the one-state row invariant of the table when the spec defines one.
func (g *GhostDB) keyFacts(st *State, t *Table, row, k Term) {
	if t.Key != "" {
		kc := t.col(t.Key)
		st.assume(Implies(rowPresent(t.Name, row), Eq(colSel(t.Name, t.Key, row, kc.Sort), optSome(kc.Sort, k))))
	}
	if _, ok := g.x.prog.spec.sigs["rowassume."+t.Name]; ok {
		st.assume(Implies(rowPresent(t.Name, row), App(SBool, "rowassume."+t.Name, row)))
		g.x.notes["ASSUMED: rowassume."+t.Name+" (bounds on stored counters, see spec/30_rely.smt2)"] = true
	}
	if _, ok := g.x.prog.spec.sigs["rowinv."+t.Name]; ok {
		st.assume(Implies(rowPresent(t.Name, row), App(SBool, "rowinv."+t.Name, row)))
	}
}

// pushLayer installs a new version of table name.
func (g *GhostDB) pushLayer(name, tag string, layer func(st *State, k Term, old Term) Term) *TableVer {
	tv := g.newVer(g.schema.Tables[name], g.cur[name], tag)
	tv.Layer = layer
	g.cur[name] = tv
	return tv
}

// relyStep moves every table by an arbitrary step of the rely relation.
func (g *GhostDB) relyStep(rel string) {
	for name, cur := range g.cur {
		tv := g.newVer(cur.Table, cur, "rely")
		tv.Rely = rel
		g.cur[name] = tv
	}
}

// havocAll forgets everything about the database (fresh base versions).
func (g *GhostDB) havocAll(tag string) {
	for name, cur := range g.cur {
		g.cur[name] = g.newVer(cur.Table, nil, tag)
	}
}

func (g *GhostDB) atLoopEntry(x *Exec, st *State, fr *Frame, l *loopInfo) {
	// a loop whose body touches the database: forget the database state
	if loopTouchesDB(x, fr, l) {
		if g.mode == "coroutine" {
			g.relyStep("rely")
			// each iteration may yield: time may advance
			g.advanceClock(st)
		} else {
			g.havocAll("loop")
		}
	}
}

func (g *GhostDB) advanceClock(st *State) {
	old := g.now
	g.now = g.x.sym.Fresh("now", SInt)
	if old.S != "" {
		st.assume(Ge(g.now, old))
	}
	st.assume(And(Ge(g.now, IntLit(0)), Le(g.now, IntLit(1<<61)))) // A-clock: tick times are below 2^61 ms
	if g.now0.S == "" {
		g.now0 = g.now
	}
}

func (g *GhostDB) atOpaqueCall(x *Exec, st *State, fr *Frame, c *callCtx, ct *Contract) {
	if ct.Directives["touches-db"] != nil {
		if g.mode == "coroutine" {
			g.relyStep("rely")
			g.advanceClock(st)
		} else {
			g.havocAll("call")
		}
	}
}

func (g *GhostDB) extendEnv(x *Exec, env *SpecEnv, st *State, fr *Frame) {
	prev := env.extra
	env.extra = func(name string, args []TV) (TV, bool) {
		if tv, ok := g.specBuiltin(env, st, name, args); ok {
			return tv, true
		}
		if prev != nil {
			return prev(name, args)
		}
		return TV{}, false
	}
}

func callNameOf(in ssa.Instruction) string {
	ci, ok := in.(ssa.CallInstruction)
	if !ok {
		return ""
	}
	cc := ci.Common()
	if cc.IsInvoke() {
		return types.TypeString(cc.Value.Type(), nil) + "." + cc.Method.Name()
	}
	if f := cc.StaticCallee(); f != nil {
		return f.RelString(nil)
	}
	return ""
}

func loopTouchesDB(x *Exec, fr *Frame, l *loopInfo) bool {
	for b := range l.body {
		for _, in := range b.Instrs {
			if name := callNameOf(in); name != "" {
				if strings.Contains(name, "gocoro.") || strings.Contains(name, "database/sql") {
					return true
				}
			}
		}
	}
	return false
}

// specBuiltin resolves ghost names in contract expressions (filled in by dbspec.go).
func (g *GhostDB) specBuiltin(env *SpecEnv, st *State, name string, args []TV) (TV, bool) {
	return g.dbBuiltin(env, st, name, args)
}
