package main

// Loops are cut at their headers: on first arrival the user invariants are
// checked, everything the loop may modify is havocked, the invariants are
// assumed and the body is executed once; arriving again over a back edge the
// invariants are checked and the path ends. No unrolling, no bound.

import (
	"fmt"
	"go/ast"
	"go/token"
	"go/types"
	"os"
	"sort"
	"strconv"
	"strings"
	"sync"

	"golang.org/x/tools/go/ssa"
)

type loopInfo struct {
	header *ssa.BasicBlock
	body   map[*ssa.BasicBlock]bool
	ord    int // 1-based ordinal in source order
}

var loopCache = map[*ssa.Function][]*loopInfo{}
var loopCacheMu sync.Mutex

func (x *Exec) loopsOf(fn *ssa.Function) []*loopInfo {
	loopCacheMu.Lock()
	defer loopCacheMu.Unlock()
	if l, ok := loopCache[fn]; ok {
		return l
	}
	var loops []*loopInfo
	for _, h := range fn.Blocks {
		var latches []*ssa.BasicBlock
		for _, p := range h.Preds {
			if h.Dominates(p) {
				latches = append(latches, p)
			}
		}
		if len(latches) == 0 {
			continue
		}
		body := map[*ssa.BasicBlock]bool{h: true}
		var stack []*ssa.BasicBlock
		for _, l := range latches {
			if !body[l] {
				body[l] = true
				stack = append(stack, l)
			}
		}
		for len(stack) > 0 {
			b := stack[len(stack)-1]
			stack = stack[:len(stack)-1]
			for _, p := range b.Preds {
				if !body[p] {
					body[p] = true
					stack = append(stack, p)
				}
			}
		}
		loops = append(loops, &loopInfo{header: h, body: body})
	}
	// order by source position of the header's first positioned instruction
	posOf := func(l *loopInfo) token.Pos {
		best := token.NoPos
		for b := range l.body {
			for _, in := range b.Instrs {
				if _, isPhi := in.(*ssa.Phi); isPhi {
					continue // a phi carries the position of the variable's declaration, which may precede the loop
				}
				if p := in.Pos(); p != token.NoPos && (best == token.NoPos || p < best) {
					best = p
				}
			}
		}
		return best
	}
	sort.Slice(loops, func(i, j int) bool { return posOf(loops[i]) < posOf(loops[j]) })
	for i, l := range loops {
		l.ord = i + 1
		if os.Getenv("GOVC_DEBUG_LOOPS") != "" {
			fmt.Fprintf(os.Stderr, "loop %d of %s: header block %d pos %v\n", l.ord, fn.Name(), l.header.Index, fn.Prog.Fset.Position(posOf(l)))
		}
	}
	loopCache[fn] = loops
	return loops
}

func (x *Exec) loopAt(fn *ssa.Function, b *ssa.BasicBlock) *loopInfo {
	for _, l := range x.loopsOf(fn) {
		if l.header == b {
			return l
		}
	}
	return nil
}

func (x *Exec) isLoopHeader(fn *ssa.Function, b *ssa.BasicBlock) bool {
	return x.loopAt(fn, b) != nil
}

func firstNonPhi(b *ssa.BasicBlock) int {
	for i, in := range b.Instrs {
		if _, ok := in.(*ssa.Phi); !ok {
			return i
		}
	}
	return len(b.Instrs)
}

// loopEnv builds the spec environment at a loop header: parameters plus the
// header's phis under their source names.
func (x *Exec) loopEnv(st *State, fr *Frame, l *loopInfo) *SpecEnv {
	env := x.specEnvFor(st, fr.fn, fr.params, nil, fr.entryHeap)
	for _, in := range l.header.Instrs {
		ph, ok := in.(*ssa.Phi)
		if !ok {
			break
		}
		if v, ok := fr.env[ph]; ok && ph.Comment != "" {
			env.vars[ph.Comment] = TV{v, ph.Type()}
		}
	}
	x.bindLocals(env, fr)
	// index variables of the enclosing range loops: rangeindex<ordinal>
	for _, ol := range x.loopsOf(fr.fn) {
		for _, in := range ol.header.Instrs {
			ph, ok := in.(*ssa.Phi)
			if !ok {
				break
			}
			if v, ok := fr.env[ph]; ok && ph.Comment == "rangeindex" {
				env.vars[fmt.Sprintf("rangeindex%d", ol.ord)] = TV{v, ph.Type()}
			}
		}
	}
	// values defined before the loop that carry a source name via DebugRef are
	// not available; named result parameters and free variables are covered by
	// specEnvFor.
	x.extendEnv(env, st, fr)
	return env
}

func (x *Exec) invariantsFor(fr *Frame, l *loopInfo) (*Contract, []Clause) {
	c := x.prog.contracts.byKey[x.prog.funcKey(fr.fn)]
	if c == nil {
		return nil, nil
	}
	var out []Clause
	for _, cl := range c.Invariants {
		if cl.Loop == l.ord {
			out = append(out, cl)
		}
	}
	return c, out
}

// atLoopHeader is called when the phis of a loop header have been evaluated.
func (x *Exec) atLoopHeader(st *State, fr *Frame, h *ssa.BasicBlock) {
	l := x.loopAt(fr.fn, h)
	c, invs := x.invariantsFor(fr, l)
	if os.Getenv("GOVC_DEBUG_LOOPS") != "" {
		fmt.Fprintf(os.Stderr, "at header of loop %d of %s: cut=%v frames=%d trace=%v\n", l.ord, fr.fn.Name(), fr.cut[h] != nil, len(st.frames), st.trace)
	}
	if cut := fr.cut[h]; cut != nil {
		// back edge: invariants must be preserved
		env := x.loopEnv(st, fr, l)
		for _, cl := range invs {
			t, err := env.EvalBool(cl.Text)
			if err != nil {
				x.unsupported(st, err.Error())
				return
			}
			x.oblige(st, "invariant-preserved", fmt.Sprintf("loop %d invariant preserved: %s", l.ord, cl.Text), t, h.Instrs[0].Pos(), c.clauseProps(cl))
		}
		// "site loop N backedge assert e": e holds at the end of every iteration; itercalls("name")
		// counts the recorded calls of this iteration
		x.iterBase = cut.recBase
		x.iterObjBase = cut.objBase
		x.siteAsserts(st, fr, "backedge", "", nil)
		x.loopHook(st, fr, l, "back")
		st.dead = true
		return
	}
	// 1. invariants hold on entry (a state cloned here re-runs the entry: the cut is not set yet)
	env := x.loopEnv(st, fr, l)
	for _, cl := range invs {
		t, err := env.EvalBool(cl.Text)
		if err != nil {
			x.unsupported(st, err.Error())
			return
		}
		x.oblige(st, "invariant-entry", fmt.Sprintf("loop %d invariant on entry: %s", l.ord, cl.Text), t, h.Instrs[0].Pos(), c.clauseProps(cl))
	}
	fr.cut[h] = &loopCut{}
	// 2. havoc
	x.havocLoop(st, fr, l)
	if st.dead {
		return
	}
	x.loopHook(st, fr, l, "entry")
	fr.cut[h].recBase = len(st.rec)
	fr.cut[h].objBase = x.nextObj
	// 3. assume invariants (a state cloned from here on continues into the body, with the invariants
	// assumed so far: weaker, never unsound)
	fr.headerDone = true
	env = x.loopEnv(st, fr, l)
	env.assumeMode = true
	for _, cl := range invs {
		t, err := env.EvalBool(cl.Text)
		if err != nil {
			x.unsupported(st, err.Error())
			return
		}
		st.assume(t)
	}
}

// loopHook lets the ghost layer react to loops (e.g. havoc the database when
// the body yields).
func (x *Exec) loopHook(st *State, fr *Frame, l *loopInfo, when string) {
	if st.ghost != nil && when == "entry" {
		st.ghost.atLoopEntry(x, st, fr, l)
	}
}

func (x *Exec) havocLoop(st *State, fr *Frame, l *loopInfo) {
	name := fmt.Sprintf("%s.loop%d", fr.fn.Name(), l.ord)
	x.loopCounter++
	tag := fmt.Sprintf("%s!%d", name, x.loopCounter)
	// phis
	for _, in := range l.header.Instrs {
		ph, ok := in.(*ssa.Phi)
		if !ok {
			break
		}
		old := fr.env[ph]
		nm := ph.Comment
		if nm == "" {
			nm = ph.Name()
		}
		nv := x.symbolic(st, ph.Type(), tag+"."+nm)
		if isCommandSlice(ph.Type()) || isAwaitableSlice(ph.Type()) {
			if sl, ok := nv.(VSlice); ok && sl.Arr >= 0 {
				if abs, ok := st.heap[sl.Arr].(*VAbsArr); ok {
					cp := *abs
					x.attachSliceFacts(st, &cp, ph.Type(), ph)
					st.heap[sl.Arr] = &cp
				}
			}
		}
		// induction variables: constant start, constant positive step => lower bound
		if b := basicOf(ph.Type()); b != nil && b.Info()&types.IsInteger != 0 {
			if lo, ok := inductionLowerBound(ph, l); ok {
				st.assume(Ge(x.scalar(st, nv), IntLit(lo)))
			} else if ov, ok := old.(VScalar); ok {
				// monotone counters (x = x + k, k >= 0) keep their entry value as lower bound
				if monotoneUp(ph, l) {
					st.assume(Ge(x.scalar(st, nv), ov.T))
				}
			}
		}
		// a *sql.Stmt variable every definition of which is nil or the result of Prepare on one and the same
		// constant holds, whenever it is not nil, a statement prepared from that constant: an invariant that
		// holds by construction (flow-insensitive), so it needs no annotation naming the variable
		if text, ok := x.preparedConstOf(fr, ph); ok {
			if p, isP := nv.(VPtr); isP && p.Loc != nil {
				if stmts, err := ParseSQL(text); err == nil && len(stmts) == 1 {
					st.heap[p.Loc.Obj] = &SQLStmtObj{Text: text, Stmt: stmts[0], Name: x.constNameOf(text)}
				}
			}
		}
		fr.env[ph] = nv
		// the range-over-slice idiom of the SSA builder: idx = phi[-1, idx+1]; if idx+1 < n.
		// idx < n is an invariant of that shape (n is loop invariant).
		if ph.Comment == "rangeindex" {
			if n := rangeBound(ph, l); n != nil {
				if nvl, ok := fr.env[n]; ok {
					st.assume(Lt(x.scalar(st, nv), x.scalar(st, nvl)))
				}
			}
		}
	}
	// heap locations written in the body
	for b := range l.body {
		for _, in := range b.Instrs {
			switch i := in.(type) {
			case *ssa.Store:
				x.havocTarget(st, fr, l, i.Addr, tag)
			case *ssa.MapUpdate:
				x.havocMap(st, fr, l, i.Map, tag)
			case ssa.CallInstruction:
				x.havocCall(st, fr, l, i, tag)
			}
			if st.dead {
				return
			}
		}
	}
}

// preparedConstOf: for a phi of type *sql.Stmt, the SQL text all of its non-nil definitions were prepared
// from (through phis, transitively), if that is a single constant.
func (x *Exec) preparedConstOf(fr *Frame, ph *ssa.Phi) (string, bool) {
	pt, ok := ph.Type().Underlying().(*types.Pointer)
	if !ok || !strings.HasSuffix(types.TypeString(pt.Elem(), nil), "database/sql.Stmt") {
		return "", false
	}
	texts := map[string]bool{}
	seen := map[ssa.Value]bool{}
	okAll := true
	var walk func(v ssa.Value)
	walk = func(v ssa.Value) {
		if seen[v] || !okAll {
			return
		}
		seen[v] = true
		switch n := v.(type) {
		case *ssa.Phi:
			for _, e := range n.Edges {
				walk(e)
			}
		case *ssa.Const:
			if !n.IsNil() {
				okAll = false
			}
		case *ssa.Extract:
			call, isCall := n.Tuple.(*ssa.Call)
			if !isCall || n.Index != 0 {
				okAll = false
				return
			}
			cal := call.Common().StaticCallee()
			if cal == nil || cal.Name() != "Prepare" || len(call.Common().Args) < 2 {
				okAll = false
				return
			}
			c, isC := call.Common().Args[len(call.Common().Args)-1].(*ssa.Const)
			if !isC {
				okAll = false
				return
			}
			t, isS := constStringVal2(c)
			if !isS {
				okAll = false
				return
			}
			texts[t] = true
		default:
			okAll = false
		}
	}
	walk(ph)
	if !okAll || len(texts) != 1 {
		return "", false
	}
	for t := range texts {
		return t, true
	}
	return "", false
}

func definedIn(l *loopInfo, v ssa.Value) bool {
	if in, ok := v.(ssa.Instruction); ok {
		return in.Block() != nil && l.body[in.Block()]
	}
	return false
}

func inductionLowerBound(ph *ssa.Phi, l *loopInfo) (int64, bool) {
	var start *int64
	for i, e := range ph.Edges {
		pred := ph.Block().Preds[i]
		if l.body[pred] {
			bo, ok := e.(*ssa.BinOp)
			if !ok || bo.Op != token.ADD {
				return 0, false
			}
			if bo.X != ph {
				return 0, false
			}
			c, ok := bo.Y.(*ssa.Const)
			if !ok || c.Int64() < 0 {
				return 0, false
			}
		} else {
			c, ok := e.(*ssa.Const)
			if !ok || c.Value == nil {
				return 0, false
			}
			v := c.Int64()
			if start != nil && *start != v {
				return 0, false
			}
			start = &v
		}
	}
	if start == nil {
		return 0, false
	}
	return *start, true
}

// rangeBound finds n in "if phi+1 < n" of a range loop header when n is defined outside the loop.
func rangeBound(ph *ssa.Phi, l *loopInfo) ssa.Value {
	for _, in := range l.header.Instrs {
		iff, ok := in.(*ssa.If)
		if !ok {
			continue
		}
		cmp, ok := iff.Cond.(*ssa.BinOp)
		if !ok || cmp.Op != token.LSS {
			return nil
		}
		inc, ok := cmp.X.(*ssa.BinOp)
		if !ok || inc.Op != token.ADD || inc.X != ph {
			return nil
		}
		if c, ok := inc.Y.(*ssa.Const); !ok || c.Int64() != 1 {
			return nil
		}
		if definedIn(l, cmp.Y) {
			return nil
		}
		return cmp.Y
	}
	return nil
}

func monotoneUp(ph *ssa.Phi, l *loopInfo) bool {
	for i, e := range ph.Edges {
		pred := ph.Block().Preds[i]
		if !l.body[pred] {
			continue
		}
		if e == ph {
			continue
		}
		bo, ok := e.(*ssa.BinOp)
		if !ok || bo.Op != token.ADD || bo.X != ph {
			return false
		}
		c, ok := bo.Y.(*ssa.Const)
		if !ok || c.Int64() < 0 {
			return false
		}
	}
	return true
}

// havocTarget forgets what a store inside the loop may have written.
func (x *Exec) havocTarget(st *State, fr *Frame, l *loopInfo, addr ssa.Value, tag string) {
	// walk to the root of the address computation
	cur := addr
	for {
		switch a := cur.(type) {
		case *ssa.FieldAddr:
			if !definedIn(l, a) {
				goto outside
			}
			cur = a.X
			continue
		case *ssa.IndexAddr:
			if !definedIn(l, a) {
				goto outside
			}
			cur = a.X
			continue
		case *ssa.Alloc:
			if definedIn(l, a) {
				return // fresh per iteration
			}
			goto outside
		case *ssa.UnOp:
			if a.Op == token.MUL && definedIn(l, a) {
				// a pointer/slice loaded inside the loop: forget the object it was loaded from
				x.havocTarget(st, fr, l, a.X, tag)
				return
			}
			goto outside
		case *ssa.Phi:
			if definedIn(l, a) && a.Block() == l.header {
				return // the phi itself was havocked to a fresh symbolic value
			}
			goto outside
		case *ssa.Slice:
			if definedIn(l, a) {
				cur = a.X
				continue
			}
			goto outside
		case *ssa.Call, *ssa.Extract, *ssa.MakeSlice, *ssa.MakeMap, *ssa.Lookup, *ssa.TypeAssert, *ssa.ChangeType, *ssa.MakeInterface:
			if definedIn(l, cur) {
				// objects produced inside the loop (fresh or reached through a call result):
				// call results may alias outside state; handled by havocCall
				return
			}
			goto outside
		default:
			goto outside
		}
	}
outside:
	if definedIn(l, cur) {
		x.unsupported(st, fmt.Sprintf("loop %d: cannot determine what store through %s modifies", l.ord, cur.Name()))
		return
	}
	v, ok := fr.env[cur]
	if !ok {
		if g, isG := cur.(*ssa.Global); isG {
			v = x.global(st, g)
		} else if _, isParam := cur.(*ssa.Parameter); !isParam {
			return
		}
	}
	x.havocValueTarget(st, v, cur.Type(), addr, cur, tag)
}

// havocValueTarget forgets the contents reachable through root for the
// access described by addr (relative to rootVal).
func (x *Exec) havocValueTarget(st *State, root Value, rootT types.Type, addr, rootVal ssa.Value, tag string) {
	rootSSA := rootVal
	root = x.force(st, root)
	switch r := root.(type) {
	case VPtr:
		if r.Loc == nil {
			return
		}
		// precise when the address is a chain of constant field selections from the root
		path, precise := constPath(addr, rootVal)
		if precise {
			loc := &Loc{Obj: r.Loc.Obj, Path: append(append([]int(nil), r.Loc.Path...), path...)}
			t := addr.Type().Underlying().(*types.Pointer).Elem()
			x.store(st, loc, VLazy{Typ: t, Name: tag + "." + fmt.Sprint(loc.Path)})
			return
		}
		elem := rootT.Underlying().(*types.Pointer).Elem()
		x.store(st, r.Loc, VLazy{Typ: elem, Name: tag + ".obj"})
	case VSlice:
		if r.Arr < 0 {
			return
		}
		switch arr := st.heap[r.Arr].(type) {
		case VArray:
			e := make([]Value, len(arr.E))
			et := rootT.Underlying().(*types.Slice).Elem()
			for k := range e {
				e[k] = VLazy{Typ: et, Name: fmt.Sprintf("%s.elem%d", tag, k)}
			}
			st.heap[r.Arr] = VArray{e}
		case *VAbsArr:
			cp := *arr
			cp.Cells = nil
			cp.ElemGen = nil
			cp.Havocked = true
			cp.Name = tag + "." + arr.Name
			x.attachSliceFacts(st, &cp, rootT, rootSSA)
			st.heap[r.Arr] = &cp
		}
	case VMap:
		x.havocMapValue(st, r, tag)
	}
}

// constPath returns the field path from root to addr if it consists only of
// FieldAddr and constant IndexAddr steps.
func constPath(addr, root ssa.Value) ([]int, bool) {
	var rev []int
	cur := addr
	for cur != root {
		switch a := cur.(type) {
		case *ssa.FieldAddr:
			rev = append(rev, a.Field)
			cur = a.X
		default:
			return nil, false
		}
	}
	out := make([]int, len(rev))
	for i := range rev {
		out[i] = rev[len(rev)-1-i]
	}
	return out, true
}

func (x *Exec) havocMap(st *State, fr *Frame, l *loopInfo, m ssa.Value, tag string) {
	if definedIn(l, m) {
		if _, ok := m.(*ssa.MakeMap); ok {
			return
		}
		if ph, ok := m.(*ssa.Phi); ok && ph.Block() == l.header {
			return
		}
		if u, ok := m.(*ssa.UnOp); ok && u.Op == token.MUL {
			x.havocTarget(st, fr, l, u.X, tag)
			return
		}
	}
	v, ok := fr.env[m]
	if !ok {
		return
	}
	if mv, ok := x.force(st, v).(VMap); ok {
		x.havocMapValue(st, mv, tag)
	}
}

func (x *Exec) havocMapValue(st *State, m VMap, tag string) {
	if m.Obj < 0 {
		return
	}
	switch c := st.heap[m.Obj].(type) {
	case MapSS:
		st.heap[m.Obj] = MapSS{A: x.sym.Fresh(tag+".map", SMapSS)}
	case *MapGen:
		cp := *c
		cp.Entries = nil
		cp.Sym = true
		cp.LenT = x.sym.Fresh(tag+".maplen", SInt)
		st.assume(Ge(cp.LenT, IntLit(0)))
		st.heap[m.Obj] = &cp
	}
}

// havocCall accounts for heap effects of calls inside the loop body.
func (x *Exec) havocCall(st *State, fr *Frame, l *loopInfo, call ssa.CallInstruction, tag string) {
	common := call.Common()
	callee := common.StaticCallee()
	if callee == nil {
		return // interface methods and closures: effects are described by their intrinsics/contracts
	}
	if _, isIntr := x.intrinsicFor(callee); isIntr {
		// decoding functions write through the pointers they are handed (wrapped in interfaces, possibly in
		// a variadic slice): a target that lives outside the loop is changed by every iteration
		if writingIntrinsics[calleeName(callee)] {
			for _, a := range common.Args {
				for _, root := range decodeTargets(a) {
					if _, isPtr := root.Type().Underlying().(*types.Pointer); isPtr && !definedIn(l, root) {
						if os.Getenv("GOVC_DEBUG_LOOPS") != "" {
							fmt.Fprintf(os.Stderr, "havoc of %s written by %s in loop %d\n", root.Name(), callee.Name(), l.ord)
						}
						x.havocTarget(st, fr, l, root, tag)
					}
				}
			}
		}
		return
	}
	if !x.prog.inRepo(callee) || callee.Blocks == nil {
		return
	}
	if !writesThroughParams(callee, 0, map[*ssa.Function]bool{}) {
		return
	}
	if os.Getenv("GOVC_DEBUG_LOOPS") != "" {
		fmt.Fprintf(os.Stderr, "havoc by call to %s in loop %d\n", callee.Name(), l.ord)
	}
	for _, a := range common.Args {
		if definedIn(l, a) {
			continue
		}
		v, ok := fr.env[a]
		if !ok {
			continue
		}
		switch a.Type().Underlying().(type) {
		case *types.Pointer, *types.Slice, *types.Map:
			x.havocValueTarget(st, v, a.Type(), a, nil, tag)
		}
	}
}

var writingIntrinsics = map[string]bool{
	"encoding/json.Unmarshal":                    true,
	"(*encoding/json.Decoder).Decode":            true,
	repoModule + "/internal/util.UnmarshalChain": true,
	"(*database/sql.Rows).Scan":                  true,
	"(*database/sql.Row).Scan":                   true,
	"errors.As":                                  true,
}

// decodeTargets: the pointer values an argument of a decoding call carries: the operand of a MakeInterface,
// or, for a variadic argument, the operands of the MakeInterface values stored into the slice's array.
func decodeTargets(a ssa.Value) []ssa.Value {
	switch v := a.(type) {
	case *ssa.MakeInterface:
		return []ssa.Value{v.X}
	case *ssa.Slice:
		al, ok := v.X.(*ssa.Alloc)
		if !ok || al.Referrers() == nil {
			return nil
		}
		var out []ssa.Value
		for _, r := range *al.Referrers() {
			ia, ok := r.(*ssa.IndexAddr)
			if !ok || ia.Referrers() == nil {
				continue
			}
			for _, rr := range *ia.Referrers() {
				if stI, ok := rr.(*ssa.Store); ok {
					if mi, ok := stI.Val.(*ssa.MakeInterface); ok {
						out = append(out, mi.X)
					}
				}
			}
		}
		return out
	}
	return nil
}

func writesThroughParams(fn *ssa.Function, depth int, seen map[*ssa.Function]bool) bool {
	if seen[fn] || depth > 3 {
		return false
	}
	seen[fn] = true
	for _, b := range fn.Blocks {
		for _, in := range b.Instrs {
			switch i := in.(type) {
			case *ssa.Store:
				if !rootIsLocalAlloc(i.Addr) {
					return true
				}
			case *ssa.MapUpdate:
				if _, ok := i.Map.(*ssa.MakeMap); !ok {
					return true
				}
			case ssa.CallInstruction:
				if c := i.Common().StaticCallee(); c != nil && c.Blocks != nil && fnInRepo(c) {
					if _, isIntr := intrinsics[calleeName(c)]; isIntr {
						continue
					}
					if writesThroughParams(c, depth+1, seen) {
						return true
					}
				}
			}
		}
	}
	return false
}

func rootIsLocalAlloc(addr ssa.Value) bool {
	cur := addr
	for {
		switch a := cur.(type) {
		case *ssa.FieldAddr:
			cur = a.X
		case *ssa.IndexAddr:
			cur = a.X
		case *ssa.Alloc:
			return true
		default:
			return false
		}
	}
}

// attachSliceFacts records what the function ever stores into the slice (see analysis.go).
func (x *Exec) attachSliceFacts(st *State, arr *VAbsArr, t types.Type, v ssa.Value) {
	if v == nil {
		return
	}
	fn := st.top().fn
	if isCommandSlice(t) {
		arr.CmdKinds = x.commandKindsFor(fn, v)
	}
	if isAwaitableSlice(t) {
		arr.AwaitKinds = x.awaitKindsFor(fn, v)
		if arr.AwaitKinds != nil {
			kinds := arr.AwaitKinds
			name := arr.Name
			elemT := t.Underlying().(*types.Slice).Elem()
			// a slice built by append alone holds only what was appended: results of Yield / Spawn, never nil
			nonNil := appendOnly(fn, sliceGroup(fn, v))
			arr.ElemGen = func(s *State, idx Term) Value {
				x.callCounter++
				nilT := x.sym.Fresh(name+".elem.isnil", SBool)
				if nonNil {
					nilT = TFalse
				}
				return VIface{Nil: nilT, Val: VAwait{Sym: true, Kinds: kinds}, Typ: elemT}
			}
		}
	}
}

// bindLocals adds the locals of a frame under their source names (DebugRef).
func (x *Exec) bindLocals(env *SpecEnv, fr *Frame) {
	// address-taken locals: the Alloc carries the variable name
	type cand struct {
		pos token.Pos
		tv  TV
	}
	best := map[string]cand{}
	for v, val := range fr.env {
		a, ok := v.(*ssa.Alloc)
		if !ok || a.Comment == "" || a.Comment == "complit" || a.Comment == "varargs" || a.Comment == "slicelit" || a.Comment == "makeslice" || a.Comment == "new" {
			continue
		}
		if _, taken := env.vars[a.Comment]; taken {
			continue
		}
		p, ok := val.(VPtr)
		if !ok || p.Loc == nil {
			continue
		}
		elem := a.Type().Underlying().(*types.Pointer).Elem()
		if c, ok := best[a.Comment]; !ok || a.Pos() > c.pos {
			best[a.Comment] = cand{a.Pos(), TV{env.loadLoc(p.Loc, elem), elem}}
		}
	}
	for n, c := range best {
		env.vars[n] = c.tv
	}
	for name, nr := range fr.names {
		if _, taken := env.vars[name]; taken {
			continue
		}
		v, ok := fr.env[nr.V]
		if !ok {
			continue
		}
		if nr.IsAddr {
			if p, ok := v.(VPtr); ok && p.Loc != nil {
				if pt, ok := nr.V.Type().Underlying().(*types.Pointer); ok {
					env.vars[name] = TV{env.loadLoc(p.Loc, pt.Elem()), pt.Elem()}
				}
			}
			continue
		}
		env.vars[name] = TV{v, nr.V.Type()}
	}
	// a variable that has only been merged so far (a phi of the current or an enclosing loop header / join
	// block carries the variable's name) and not yet mentioned by a debug reference on this path
	for v, val := range fr.env {
		ph, ok := v.(*ssa.Phi)
		if !ok || ph.Comment == "" || ph.Comment == "rangeindex" {
			continue
		}
		if _, taken := env.vars[ph.Comment]; taken {
			continue
		}
		if ph.Block() != fr.block && !x.blockDominatesByLoop(fr, ph.Block()) {
			continue
		}
		env.vars[ph.Comment] = TV{val, ph.Type()}
	}
}

// blockDominatesByLoop: b is the header of a loop that contains the frame's current block.
func (x *Exec) blockDominatesByLoop(fr *Frame, b *ssa.BasicBlock) bool {
	for _, l := range x.loopsOf(fr.fn) {
		if l.header == b && l.body[fr.block] {
			return true
		}
	}
	return false
}

// frameEnv is the spec environment at an arbitrary program point of a frame:
// parameters, captured variables and locals by source name.
func (x *Exec) frameEnv(st *State, fr *Frame) *SpecEnv {
	env := x.specEnvFor(st, fr.fn, fr.params, nil, fr.entryHeap)
	x.bindLocals(env, fr)
	x.extendEnv(env, st, fr)
	return env
}

// inLoop reports whether the frame's current block lies in loop ordinal n.
func (x *Exec) inLoop(fr *Frame, n int) bool {
	for _, l := range x.loopsOf(fr.fn) {
		if l.ord == n {
			return l.body[fr.block]
		}
	}
	return false
}

// siteAsserts evaluates the "<kind> ..." site directives of the contract under
// verification that apply at the current point of the top-level frame.
//
//	call <callee> assert <expr>            (callee parameters bound by name)
//	[loop <n>] batch assert <expr>         (cmd = the *t_aio.Command being put into a slice)
//	[loop <n>] yield <kind> assert <expr>  (sub = the kind's submission payload)
func (x *Exec) siteAsserts(st *State, fr *Frame, kind, arg string, bind map[string]TV) {
	if x.contract == nil || len(st.frames) == 0 || fr != st.frames[0] {
		return
	}
	if kind == "deepcall" {
		found := false
		for _, d := range x.contract.Directives["site"] {
			if strings.Contains(d, "deepcall ") {
				found = true
			}
		}
		if !found {
			return
		}
	}
	for _, key := range []string{"site"} {
		for _, d := range x.contract.Directives[key] {
			parts := strings.SplitN(d, " assert ", 2)
			if len(parts) != 2 {
				continue
			}
			hdr := strings.Fields(parts[0])
			loopN := 0
			if len(hdr) >= 2 && hdr[0] == "loop" {
				loopN, _ = strconv.Atoi(hdr[1])
				hdr = hdr[2:]
			}
			if len(hdr) == 0 || hdr[0] != kind {
				continue
			}
			if len(hdr) > 1 && hdr[1] != arg {
				// "call Type.Method": qualified form, matched against the callee's full name
				q := strings.NewReplacer("(", "", ")", "", "*", "").Replace(x.curCallee)
				isCall := kind == "call" || kind == "deepcall"
				if !(isCall && strings.Contains(hdr[1], ".") && x.curCallee != "" && (q == hdr[1] || strings.HasSuffix(q, "."+hdr[1]) || strings.HasSuffix(q, "/"+hdr[1]))) {
					continue
				}
			}
			if loopN != 0 && !x.inLoop(fr, loopN) {
				continue
			}
			if kind == "exit" {
				leaving := false
				for _, n := range x.exitLoops {
					if n == loopN {
						leaving = true
					}
				}
				if !leaving {
					continue
				}
			}
			// itercalls/iterres count from the entry of the innermost enclosing loop iteration
			if kind != "backedge" {
				x.iterBase = 0
				x.iterObjBase = 0
				best := -1
				for _, l := range x.loopsOf(fr.fn) {
					if l.body[fr.block] {
						if cut := fr.cut[l.header]; cut != nil && (best < 0 || len(l.body) < best) {
							best = len(l.body)
							x.iterBase = cut.recBase
							x.iterObjBase = cut.objBase
						}
					}
				}
			}
			env := x.frameEnv(st, fr)
			for k, v := range bind {
				// a callee parameter hides the caller's local of the same name: that one stays reachable
				// as caller_<name>
				if old, ok := env.vars[k]; ok {
					env.vars["caller_"+k] = old
				}
				env.vars[k] = v
			}
			props := x.contract.Props
			if m := tagRe.FindStringSubmatch(parts[1]); m != nil {
				props = strings.FieldsFunc(m[1], func(r rune) bool { return r == ' ' || r == ',' })
				parts[1] = parts[1][len(m[0]):]
			}
			t, err := env.EvalBool(parts[1])
			if err != nil {
				// an assertion that cannot be evaluated (it names a local that is gone) is reported as such
				// and skipped: nothing was assumed from it, so the path goes on and the other assertions
				// are still decided
				if !x.inSpecFailure {
					x.inSpecFailure = true
					x.oblige(st, "contract", "contract clause can be evaluated against the current source: "+err.Error(), TFalse, token.NoPos, x.contract.allProps())
					x.inSpecFailure = false
				}
				continue
			}
			x.oblige(st, "site", fmt.Sprintf("%s: %s", strings.TrimSpace(parts[0]), parts[1]), t, token.NoPos, props)
		}
	}
}

// loopCompleteObligations: "loop N complete" demands that loop N is only left through its header
// condition (no break, return, goto or panic-free early exit out of the body): every element of the
// ranged collection is processed.
func (x *Exec) loopCompleteObligations(st *State, fr *Frame, ct *Contract) {
	// a site assertion or an invariant that names a loop the function no longer has would silently
	// assert nothing: that is a contract that cannot be evaluated against the current source
	hasLoop := func(n int) bool {
		for _, c := range x.loopsOf(fr.fn) {
			if c.ord == n {
				return true
			}
		}
		return false
	}
	// A for statement whose body can never reach its own header again (every path through it ends in break
	// or return) is not a loop of the control flow graph. When the contract names more loops than the graph
	// has while the source still has the for statements, one of them has degenerated: that is decided (the
	// statement iterates at most once, so whatever the contract says about its iterations, early exits or
	// completeness is false of it), not a contract that merely cannot be evaluated.
	if n := astLoopCount(fr.fn); n > len(x.loopsOf(fr.fn)) {
		named := 0
		for _, d := range ct.Directives["site"] {
			f := strings.Fields(d)
			if len(f) >= 2 && f[0] == "loop" {
				if k, err := strconv.Atoi(f[1]); err == nil && k > named {
					named = k
				}
			}
		}
		for _, cl := range ct.Invariants {
			if cl.Loop > named {
				named = cl.Loop
			}
		}
		for _, d := range ct.Directives["loop-complete"] {
			if k, err := strconv.Atoi(strings.TrimSpace(d)); err == nil && k > named {
				named = k
			}
		}
		if named > len(x.loopsOf(fr.fn)) {
			x.oblige(st, "loop-exit", fmt.Sprintf("every for statement the contract speaks about can iterate: the function has %d for statements but only %d of them can reach a second iteration (a path through the body of the other leads to break or return on every branch)", n, len(x.loopsOf(fr.fn))), TFalse, fr.fn.Pos(), ct.allProps())
			return
		}
	}
	for _, d := range ct.Directives["site"] {
		f := strings.Fields(d)
		if len(f) >= 2 && f[0] == "loop" {
			if n, err := strconv.Atoi(f[1]); err == nil && !hasLoop(n) {
				x.oblige(st, "contract", fmt.Sprintf("contract clause can be evaluated against the current source: site assertion names loop %d, which the function does not have: %s", n, d), TFalse, fr.fn.Pos(), ct.allProps())
			}
		}
	}
	for _, cl := range ct.Invariants {
		if !hasLoop(cl.Loop) {
			x.oblige(st, "contract", fmt.Sprintf("contract clause can be evaluated against the current source: invariant names loop %d, which the function does not have: %s", cl.Loop, cl.Text), TFalse, fr.fn.Pos(), ct.allProps())
		}
	}
	for _, d := range ct.Directives["loop-complete"] {
		n, err := strconv.Atoi(strings.TrimSpace(d))
		if err != nil {
			continue
		}
		var l *loopInfo
		for _, c := range x.loopsOf(fr.fn) {
			if c.ord == n {
				l = c
			}
		}
		if l == nil {
			x.oblige(st, "loop-exit", fmt.Sprintf("loop %d exists", n), TFalse, fr.fn.Pos(), ct.Props)
			continue
		}
		ok := true
		where := l.header.Instrs[0].Pos()
		for b := range l.body {
			if b == l.header {
				continue
			}
			for _, succ := range b.Succs {
				if !l.body[succ] {
					// leaving the loop from inside the body; a block that only panics is not an exit
					if isPanicBlock(succ) {
						continue
					}
					ok = false
					if len(b.Instrs) > 0 {
						where = b.Instrs[len(b.Instrs)-1].Pos()
					}
				}
			}
			if len(b.Instrs) > 0 {
				if _, isRet := b.Instrs[len(b.Instrs)-1].(*ssa.Return); isRet {
					ok = false
					where = b.Instrs[len(b.Instrs)-1].Pos()
				}
			}
		}
		x.oblige(st, "loop-exit", fmt.Sprintf("loop %d is left only through its header condition (every element is processed)", n), BoolLit(ok), where, ct.Props)
	}
}

func isPanicBlock(b *ssa.BasicBlock) bool {
	if len(b.Instrs) == 0 {
		return false
	}
	_, ok := b.Instrs[len(b.Instrs)-1].(*ssa.Panic)
	return ok
}

func fnInRepo(fn *ssa.Function) bool {
	pkg := fn.Pkg
	if pkg == nil && fn.Origin() != nil {
		pkg = fn.Origin().Pkg
	}
	for q := fn; pkg == nil && q.Parent() != nil; q = q.Parent() {
		pkg = q.Parent().Pkg
	}
	return pkg != nil && strings.HasPrefix(pkg.Pkg.Path(), repoModule)
}

// astLoopCount: the number of for / range statements in the function's own body (function literals excluded).
func astLoopCount(fn *ssa.Function) int {
	var body *ast.BlockStmt
	switch n := fn.Syntax().(type) {
	case *ast.FuncDecl:
		body = n.Body
	case *ast.FuncLit:
		body = n.Body
	}
	if body == nil {
		return 0
	}
	count := 0
	ast.Inspect(body, func(n ast.Node) bool {
		switch n.(type) {
		case *ast.FuncLit:
			return false
		case *ast.ForStmt, *ast.RangeStmt:
			count++
		}
		return true
	})
	return count
}
