package main

// Small static analyses over SSA used when a slice is havocked at a loop:
// which StoreKinds of commands, and which kinds of awaitables, are ever put
// into it. The facts are attached to the abstract array so that they survive
// the havoc (every element that is stored was checked when it was stored).

import (
	"go/types"
	"strings"

	"golang.org/x/tools/go/ssa"
)

// sliceGroup returns the SSA values that denote "the same slice variable":
// v, phis it flows through, and results of append(x, ...) with x in the group.
func sliceGroup(fn *ssa.Function, v ssa.Value) map[ssa.Value]bool {
	g := map[ssa.Value]bool{v: true}
	changed := true
	for changed {
		changed = false
		for _, b := range fn.Blocks {
			for _, in := range b.Instrs {
				switch i := in.(type) {
				case *ssa.Phi:
					for _, e := range i.Edges {
						if g[e] && !g[i] {
							g[i] = true
							changed = true
						}
					}
					if g[i] {
						for _, e := range i.Edges {
							if !g[e] {
								if _, isConst := e.(*ssa.Const); !isConst {
									g[e] = true
									changed = true
								}
							}
						}
					}
				case *ssa.Call:
					if bi, ok := i.Call.Value.(*ssa.Builtin); ok && bi.Name() == "append" && len(i.Call.Args) > 0 {
						if g[i.Call.Args[0]] && !g[i] {
							g[i] = true
							changed = true
						}
						if g[i] && !g[i.Call.Args[0]] {
							if _, isConst := i.Call.Args[0].(*ssa.Const); !isConst {
								g[i.Call.Args[0]] = true
								changed = true
							}
						}
					}
				case *ssa.Slice:
					if g[i] && !g[i.X] {
						g[i.X] = true
						changed = true
					}
				}
			}
		}
	}
	return g
}

// elementsStored lists the SSA values stored into (or appended to) the slice group.
func elementsStored(fn *ssa.Function, group map[ssa.Value]bool) []ssa.Value {
	var out []ssa.Value
	for _, b := range fn.Blocks {
		for _, in := range b.Instrs {
			switch i := in.(type) {
			case *ssa.Store:
				if ia, ok := i.Addr.(*ssa.IndexAddr); ok && group[ia.X] {
					out = append(out, i.Val)
				}
			case *ssa.Call:
				if bi, ok := i.Call.Value.(*ssa.Builtin); ok && bi.Name() == "append" && len(i.Call.Args) == 2 && group[i.Call.Args[0]] {
					// second argument: slice of a varargs array whose cells were stored
					if sl, ok := i.Call.Args[1].(*ssa.Slice); ok {
						if arr, ok := sl.X.(*ssa.Alloc); ok {
							for _, r := range *arr.Referrers() {
								if ia, ok := r.(*ssa.IndexAddr); ok {
									for _, rr := range *ia.Referrers() {
										if st, ok := rr.(*ssa.Store); ok && st.Addr == ia {
											out = append(out, st.Val)
										}
									}
								}
							}
						}
					}
				}
			}
		}
	}
	return out
}

// constFieldStore finds the constant stored into field idx of the struct allocated by alloc.
func constFieldStore(alloc ssa.Value, idx int) (int64, bool) {
	a, ok := alloc.(*ssa.Alloc)
	if !ok || a.Referrers() == nil {
		return 0, false
	}
	for _, r := range *a.Referrers() {
		fa, ok := r.(*ssa.FieldAddr)
		if !ok || fa.Field != idx || fa.Referrers() == nil {
			continue
		}
		for _, rr := range *fa.Referrers() {
			if st, ok := rr.(*ssa.Store); ok && st.Addr == fa {
				if c, ok := st.Val.(*ssa.Const); ok && c.Value != nil {
					return c.Int64(), true
				}
			}
		}
	}
	return 0, false
}

func (x *Exec) commandKindsFor(fn *ssa.Function, v ssa.Value) map[int64]bool {
	out := map[int64]bool{}
	for _, e := range elementsStored(fn, sliceGroup(fn, v)) {
		if k, ok := constFieldStore(e, 0); ok {
			out[k] = true
		} else {
			return nil // unknown element
		}
	}
	return out
}

func unwrapIface(v ssa.Value) ssa.Value {
	for {
		switch i := v.(type) {
		case *ssa.MakeInterface:
			v = i.X
		case *ssa.ChangeInterface:
			v = i.X
		case *ssa.ChangeType:
			v = i.X
		default:
			return v
		}
	}
}

// awaitKindsFor describes the awaitables stored into the slice: "sender",
// "router", "store", or "spawn:<function key>".
func (x *Exec) awaitKindsFor(fn *ssa.Function, v ssa.Value) map[string]bool {
	out := map[string]bool{}
	for _, e := range elementsStored(fn, sliceGroup(fn, v)) {
		e = unwrapIface(e)
		call, ok := e.(*ssa.Call)
		if !ok {
			return nil
		}
		callee := call.Call.StaticCallee()
		if callee == nil {
			return nil
		}
		name := calleeName(callee)
		switch {
		case name == gocoroPath+".Yield":
			k, ok := constFieldStore(call.Call.Args[1], 0)
			if !ok {
				return nil
			}
			out[[]string{"echo", "router", "sender", "store"}[k]] = true
		case name == gocoroPath+".Spawn":
			target := spawnTarget(call.Call.Args[1])
			if target == nil {
				return nil
			}
			out["spawn:"+x.prog.funcKey(target)] = true
		default:
			return nil
		}
	}
	return out
}

// spawnTarget finds the closure function a Spawn argument evaluates to.
func spawnTarget(v ssa.Value) *ssa.Function {
	switch i := v.(type) {
	case *ssa.MakeClosure:
		return i.Fn.(*ssa.Function)
	case *ssa.Function:
		return i
	case *ssa.Call:
		// a constructor such as completePromise(...) returning its single closure
		callee := i.Call.StaticCallee()
		if callee != nil && len(callee.AnonFuncs) == 1 {
			return callee.AnonFuncs[0]
		}
	case *ssa.ChangeType:
		return spawnTarget(i.X)
	}
	return nil
}

func isAwaitableSlice(t types.Type) bool {
	s, ok := t.Underlying().(*types.Slice)
	return ok && strings.Contains(types.TypeString(s.Elem(), nil), "gocoro/pkg/promise.Awaitable")
}

// appendOnly reports whether the slice group is built by append alone: no member is made with a
// non-zero length and no element is stored by index. Every element then is a value that was appended.
func appendOnly(fn *ssa.Function, g map[ssa.Value]bool) bool {
	for v := range g {
		if ms, ok := v.(*ssa.MakeSlice); ok {
			c, isConst := ms.Len.(*ssa.Const)
			if !isConst || c.Int64() != 0 {
				return false
			}
		}
		if _, ok := v.(*ssa.Parameter); ok {
			return false
		}
	}
	for _, b := range fn.Blocks {
		for _, in := range b.Instrs {
			if st, ok := in.(*ssa.Store); ok {
				if ia, ok := st.Addr.(*ssa.IndexAddr); ok && g[ia.X] {
					return false
				}
			}
		}
	}
	return true
}
