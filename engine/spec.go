package main

// The spec prelude (/verif/spec/*.smt2): datatypes and define-funs written
// from the property statements. The engine parses the headers to learn the
// signatures so that contract expressions can call spec functions.

import (
	"fmt"
	"os"
	"path/filepath"
	"sort"
	"strconv"
	"strings"
)

type specSig struct {
	args []Sort
	res  Sort
}

type Spec struct {
	text  string
	sigs  map[string]specSig
	ctors map[Sort][]string          // datatype -> constructor names
	sels  map[Sort]map[string]string // datatype -> short field name -> selector function
	files []string
	lits  map[string]string
}

type sexp struct {
	atom string
	list []*sexp
}

func (s *sexp) isAtom() bool { return s.list == nil && s.atom != "" }
func (s *sexp) String() string {
	if s.list == nil {
		if s.atom == "" {
			return "()"
		}
		return s.atom
	}
	parts := make([]string, len(s.list))
	for i, c := range s.list {
		parts[i] = c.String()
	}
	return "(" + strings.Join(parts, " ") + ")"
}

func parseSexps(src string) ([]*sexp, error) {
	var out []*sexp
	var stack []*sexp
	i := 0
	emit := func(n *sexp) {
		if len(stack) == 0 {
			out = append(out, n)
		} else {
			top := stack[len(stack)-1]
			top.list = append(top.list, n)
		}
	}
	for i < len(src) {
		c := src[i]
		switch {
		case c == ';':
			for i < len(src) && src[i] != '\n' {
				i++
			}
		case c == ' ' || c == '\t' || c == '\n' || c == '\r':
			i++
		case c == '(':
			stack = append(stack, &sexp{list: []*sexp{}})
			i++
		case c == ')':
			if len(stack) == 0 {
				return nil, fmt.Errorf("unbalanced )")
			}
			n := stack[len(stack)-1]
			stack = stack[:len(stack)-1]
			emit(n)
			i++
		case c == '|':
			j := i + 1
			for j < len(src) && src[j] != '|' {
				j++
			}
			emit(&sexp{atom: src[i : j+1]})
			i = j + 1
		case c == '"':
			j := i + 1
			for j < len(src) && src[j] != '"' {
				j++
			}
			emit(&sexp{atom: src[i : j+1]})
			i = j + 1
		default:
			j := i
			for j < len(src) && !strings.ContainsRune(" \t\n\r();", rune(src[j])) {
				j++
			}
			emit(&sexp{atom: src[i:j]})
			i = j
		}
	}
	if len(stack) != 0 {
		return nil, fmt.Errorf("unbalanced (")
	}
	return out, nil
}

func sortOf(s *sexp) Sort { return Sort(s.String()) }

func LoadSpec(dir string, generated string) (*Spec, error) {
	sp := &Spec{sigs: map[string]specSig{}, ctors: map[Sort][]string{}, sels: map[Sort]map[string]string{}}
	names, _ := filepath.Glob(filepath.Join(dir, "*.smt2"))
	sort.Strings(names)
	var b strings.Builder
	genDone := false
	for _, n := range names {
		if !genDone && !strings.HasPrefix(filepath.Base(n), "0") {
			b.WriteString(generated)
			genDone = true
		}
		data, err := os.ReadFile(n)
		if err != nil {
			return nil, err
		}
		sp.files = append(sp.files, n)
		b.WriteString("; ---- " + filepath.Base(n) + "\n")
		b.Write(data)
		b.WriteString("\n")
	}
	if !genDone {
		b.WriteString(generated)
	}
	sp.text = b.String()
	sp.lits = map[string]string{}
	for _, line := range strings.Split(sp.text, "\n") {
		line = strings.TrimSpace(line)
		if strings.HasPrefix(line, "; @lit ") {
			rest := strings.TrimPrefix(line, "; @lit ")
			i := strings.Index(rest, " ")
			if i > 0 {
				if v, err := strconv.Unquote(strings.TrimSpace(rest[i+1:])); err == nil {
					sp.lits[v] = rest[:i]
				}
			}
		}
	}
	forms, err := parseSexps(sp.text)
	if err != nil {
		return nil, fmt.Errorf("spec prelude: %v", err)
	}
	for _, f := range forms {
		if len(f.list) == 0 || !f.list[0].isAtom() {
			continue
		}
		switch f.list[0].atom {
		case "declare-fun":
			var args []Sort
			for _, a := range f.list[2].list {
				args = append(args, sortOf(a))
			}
			if args == nil {
				args = []Sort{}
			}
			sp.sigs[f.list[1].atom] = specSig{args, sortOf(f.list[3])}
		case "declare-const":
			sp.sigs[f.list[1].atom] = specSig{[]Sort{}, sortOf(f.list[2])}
		case "define-fun", "define-fun-rec":
			var args []Sort
			for _, a := range f.list[2].list {
				args = append(args, sortOf(a.list[1]))
			}
			if args == nil {
				args = []Sort{}
			}
			sp.sigs[f.list[1].atom] = specSig{args, sortOf(f.list[3])}
		case "declare-datatypes":
			// (declare-datatypes ((T 0) ...) (((ctor (sel S) ...) ...) ...))
			for k, td := range f.list[1].list {
				tname := Sort(td.list[0].atom)
				for _, ctor := range f.list[2].list[k].list {
					if ctor.isAtom() {
						sp.sigs[ctor.atom] = specSig{[]Sort{}, tname}
						sp.ctors[tname] = append(sp.ctors[tname], ctor.atom)
						continue
					}
					cname := ctor.list[0].atom
					var args []Sort
					for _, sel := range ctor.list[1:] {
						s := sortOf(sel.list[1])
						args = append(args, s)
						sp.sigs[sel.list[0].atom] = specSig{[]Sort{tname}, s}
						if sp.sels[tname] == nil {
							sp.sels[tname] = map[string]string{}
						}
						sp.sels[tname][sel.list[0].atom] = sel.list[0].atom
					}
					if args == nil {
						args = []Sort{}
					}
					sp.sigs[cname] = specSig{args, tname}
					sp.ctors[tname] = append(sp.ctors[tname], cname)
				}
			}
		}
	}
	return sp, nil
}

// selectorFor finds the selector of datatype sort s whose name is field or
// ends in "_"+field / "."+field.
func (sp *Spec) selectorFor(s Sort, field string) string {
	m := sp.sels[s]
	if m == nil {
		return ""
	}
	if _, ok := m[field]; ok {
		return field
	}
	for name := range m {
		if strings.HasSuffix(name, "_"+field) || strings.HasSuffix(name, "."+field) {
			return name
		}
	}
	return ""
}
