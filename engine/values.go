package main

// Symbolic values and the object heap used by the executor.
//
// The heap is an object heap (one entry per allocation), not a Burstall
// array: paths are enumerated without merging, so every pointer on a path
// points to exactly one object. Inputs are materialised lazily from their
// access path (|r.CompletePromise.Id| ...), which keeps models readable and
// replays mechanical. Assumption recorded in evidence: objects reachable
// from different parameters/access paths do not alias.

import (
	"fmt"
	"go/types"
	"strings"

	"golang.org/x/tools/go/ssa"
)

type Value interface{}

type VScalar struct{ T Term }

type Loc struct {
	Obj  int
	Path []int
}

func (l *Loc) Sub(i int) *Loc {
	p := make([]int, len(l.Path)+1)
	copy(p, l.Path)
	p[len(l.Path)] = i
	return &Loc{Obj: l.Obj, Path: p}
}

type VPtr struct {
	Nil Term // Bool: pointer is nil
	Loc *Loc // nil when definitely nil
	Typ types.Type
}

type VStruct struct{ F []Value }
type VArray struct{ E []Value }

// VSlice refers to a backing array object (concrete VArray or *VAbsArr content).
type VSlice struct {
	Nil Term
	Arr int  // object id of backing array; -1 when definitely nil/empty
	Lo  int  // concrete offset into a concrete backing array
	Len Term // length
	Typ types.Type
}

// VBytes models []byte as an opaque value with a nil flag.
type VBytes struct {
	Nil Term
	B   Term // sort Bytes
}

type VMap struct {
	Nil Term
	Obj int
	Typ types.Type
}

// MapSS is the heap content of a map[string]string (or any map whose key and
// value are scalars of sorts Str): an SMT array.
type MapSS struct{ A Term }

// MapGen is the heap content of any other map: lookups are memoised by key term.
type MapGen struct {
	Name    string
	Entries []MapEntry
	Typ     *types.Map
	Sym     bool // content unknown beyond entries
	LenT    Term
}
type MapEntry struct {
	Key     Term
	Present Term
	Val     Value
}

type AbsCell struct {
	Idx Term
	Val Value
}

// VAbsArr is the heap content of an array of symbolic length.
type VAbsArr struct {
	Len   Term
	Cells []AbsCell
	Elem  types.Type
	Name  string
	// ElemGen, if set, produces the value of a not yet materialised cell.
	ElemGen func(st *State, idx Term) Value
	// CmdKinds records the StoreKinds of the *t_aio.Command values stored into this
	// array (ghost; survives loop havoc because every stored element was checked).
	CmdKinds map[int64]bool
	// AwaitKinds: kinds of awaitables stored into this array (see analysis.go)
	AwaitKinds map[string]bool
	// Havocked: the cells were forgotten at a loop; nothing is known about elements read back
	Havocked bool
}

type VIface struct {
	Nil Term
	Dyn types.Type // dynamic type when known
	Val Value      // dynamic value when Dyn != nil
	Id  Term       // identity (sort ErrId) for comparisons of opaque values
	Typ types.Type
}

type VClosure struct {
	Fn    *ssa.Function
	Binds []Value
}

type VTuple struct{ E []Value }

// VLazy stands for a not yet materialised symbolic value.
type VLazy struct {
	Typ  types.Type
	Name string
}

// VOpaque is a value the engine does not interpret (channels, mutexes, ...).
type VOpaque struct {
	Typ  types.Type
	Name string
}

// --------------------------------------------------------------------------

type State struct {
	pc     []Term
	heap   map[int]Value
	frames []*Frame
	trace  []string
	ghost  *Ghost
	dead   bool
	rec    []recordedCall // ghost log of recorded calls (front-end layer)
}

type Frame struct {
	id     int // unique per pushed frame (clones keep it)
	fn     *ssa.Function
	env    map[ssa.Value]Value
	block  *ssa.BasicBlock
	prev   *ssa.BasicBlock
	ip     int
	defers []deferred
	// loop bookkeeping: header blocks already cut on this path
	cut map[*ssa.BasicBlock]*loopCut
	// where to put the result in the caller
	retInstr ssa.Value
	// entry snapshot for old()
	entryHeap  map[int]Value
	params     []Value
	onReturn   func(st *State, fr *Frame, results []Value) // used for top-level
	isDefer    bool
	headerDone bool
	wrapAwait  bool
	names      map[string]nameRef // source names of locals (from DebugRef)
}

type nameRef struct {
	V      ssa.Value
	IsAddr bool
}

type deferred struct {
	call *ssa.CallCommon
	args []Value
	fn   Value
}

type loopCut struct {
	entryPC int
	recBase int // number of recorded calls when the loop was entered (after havoc)
	objBase int // first object id allocated after the loop was entered
}

func (s *State) clone() *State {
	n := &State{pc: append([]Term(nil), s.pc...), heap: make(map[int]Value, len(s.heap)), trace: append([]string(nil), s.trace...), rec: append([]recordedCall(nil), s.rec...)}
	for k, v := range s.heap {
		n.heap[k] = v
	}
	n.frames = make([]*Frame, len(s.frames))
	for i, f := range s.frames {
		nf := *f
		nf.env = make(map[ssa.Value]Value, len(f.env))
		for k, v := range f.env {
			nf.env[k] = v
		}
		nf.cut = make(map[*ssa.BasicBlock]*loopCut, len(f.cut))
		for k, v := range f.cut {
			nf.cut[k] = v
		}
		nf.defers = append([]deferred(nil), f.defers...)
		nf.names = make(map[string]nameRef, len(f.names))
		for k, v := range f.names {
			nf.names[k] = v
		}
		n.frames[i] = &nf
	}
	if s.ghost != nil {
		n.ghost = s.ghost.clone()
	}
	return n
}

func (s *State) top() *Frame { return s.frames[len(s.frames)-1] }

func (s *State) assume(t Term) {
	if t.IsTrue() {
		return
	}
	s.pc = append(s.pc, t)
}

// --------------------------------------------------------------------------
// heap access

func (x *Exec) alloc(st *State, v Value) int {
	x.nextObj++
	st.heap[x.nextObj] = v
	return x.nextObj
}

func getPath(v Value, path []int) (Value, error) {
	for _, i := range path {
		switch vv := v.(type) {
		case VStruct:
			if i >= len(vv.F) {
				return nil, fmt.Errorf("field %d out of range", i)
			}
			v = vv.F[i]
		case VArray:
			if i >= len(vv.E) {
				return nil, fmt.Errorf("index %d out of range", i)
			}
			v = vv.E[i]
		case *VAbsArr:
			v = vv.Cells[i].Val
		default:
			return nil, fmt.Errorf("cannot navigate %T", v)
		}
	}
	return v, nil
}

func setPath(v Value, path []int, nv Value) (Value, error) {
	if len(path) == 0 {
		return nv, nil
	}
	i := path[0]
	switch vv := v.(type) {
	case VStruct:
		f := append([]Value(nil), vv.F...)
		sub, err := setPath(f[i], path[1:], nv)
		if err != nil {
			return nil, err
		}
		f[i] = sub
		return VStruct{f}, nil
	case VArray:
		e := append([]Value(nil), vv.E...)
		sub, err := setPath(e[i], path[1:], nv)
		if err != nil {
			return nil, err
		}
		e[i] = sub
		return VArray{e}, nil
	case *VAbsArr:
		cp := *vv
		cp.Cells = append([]AbsCell(nil), vv.Cells...)
		sub, err := setPath(cp.Cells[i].Val, path[1:], nv)
		if err != nil {
			return nil, err
		}
		cp.Cells[i].Val = sub
		return &cp, nil
	}
	return nil, fmt.Errorf("cannot navigate %T for store", v)
}

func (x *Exec) load(st *State, l *Loc) Value {
	root, ok := st.heap[l.Obj]
	if !ok {
		x.unsupported(st, fmt.Sprintf("load from unknown object %d", l.Obj))
		return nil
	}
	if bc, ok := root.(byteCell); ok {
		return bc.V
	}
	// materialise lazies along the path
	root = x.forcePath(st, l.Obj, root, l.Path)
	v, err := getPath(root, l.Path)
	if err != nil {
		x.unsupported(st, "load: "+err.Error())
		return nil
	}
	if lz, ok := v.(VLazy); ok {
		mv := x.symbolic(st, lz.Typ, lz.Name)
		x.store(st, l, mv)
		return mv
	}
	return v
}

// forcePath materialises lazily symbolic values that lie on the path.
func (x *Exec) forcePath(st *State, obj int, root Value, path []int) Value {
	cur := root
	for d := 0; d <= len(path); d++ {
		if lz, ok := cur.(VLazy); ok {
			mv := x.symbolic(st, lz.Typ, lz.Name)
			nr, err := setPath(st.heap[obj], path[:d], mv)
			if err != nil {
				return root
			}
			st.heap[obj] = nr
			root = nr
			cur = mv
		}
		if d == len(path) {
			break
		}
		nx, err := getPath(cur, path[d:d+1])
		if err != nil {
			return root
		}
		cur = nx
	}
	return root
}

func (x *Exec) store(st *State, l *Loc, v Value) {
	root, ok := st.heap[l.Obj]
	if !ok {
		x.unsupported(st, fmt.Sprintf("store to unknown object %d", l.Obj))
		return
	}
	if _, ro := root.(byteCell); ro {
		x.unsupported(st, "store into an element of a []byte")
		return
	}
	root = x.forcePath(st, l.Obj, root, l.Path[:max(0, len(l.Path)-1)])
	nr, err := setPath(root, l.Path, v)
	if err != nil {
		x.unsupported(st, "store: "+err.Error())
		return
	}
	st.heap[l.Obj] = nr
}

// --------------------------------------------------------------------------
// zero and symbolic values

func isByteSlice(t types.Type) bool {
	if s, ok := t.Underlying().(*types.Slice); ok {
		if b, ok := s.Elem().Underlying().(*types.Basic); ok && (b.Kind() == types.Uint8 || b.Kind() == types.Byte) {
			return true
		}
	}
	return false
}

func isStringMap(t types.Type) bool {
	if m, ok := t.Underlying().(*types.Map); ok {
		k, ok1 := m.Key().Underlying().(*types.Basic)
		v, ok2 := m.Elem().Underlying().(*types.Basic)
		return ok1 && ok2 && k.Info()&types.IsString != 0 && v.Info()&types.IsString != 0
	}
	return false
}

func scalarSort(t types.Type) (Sort, bool) {
	switch b := t.Underlying().(type) {
	case *types.Basic:
		switch {
		case b.Info()&types.IsBoolean != 0:
			return SBool, true
		case b.Info()&types.IsInteger != 0:
			return SInt, true
		case b.Info()&types.IsString != 0:
			return SStr, true
		case b.Info()&types.IsFloat != 0:
			return "Real", true
		case b.Kind() == types.UnsafePointer:
			return SInt, true
		}
	}
	return "", false
}

func (x *Exec) zero(st *State, t types.Type) Value {
	if isByteSlice(t) {
		return VBytes{Nil: TTrue, B: Term{"bytes.empty", SBytes}}
	}
	switch u := t.Underlying().(type) {
	case *types.Basic:
		s, ok := scalarSort(t)
		if !ok {
			return VOpaque{Typ: t, Name: "zero"}
		}
		switch s {
		case SBool:
			return VScalar{TFalse}
		case SInt:
			return VScalar{IntLit(0)}
		case SStr:
			return VScalar{x.sym.StrLit("")}
		default:
			return VScalar{Term{"0.0", s}}
		}
	case *types.Pointer:
		return VPtr{Nil: TTrue, Typ: t}
	case *types.Struct:
		f := make([]Value, u.NumFields())
		for i := range f {
			f[i] = x.zero(st, u.Field(i).Type())
		}
		return VStruct{f}
	case *types.Array:
		n := int(u.Len())
		if n > 64 {
			return VOpaque{Typ: t, Name: "bigarray"}
		}
		e := make([]Value, n)
		for i := range e {
			e[i] = x.zero(st, u.Elem())
		}
		return VArray{e}
	case *types.Slice:
		return VSlice{Nil: TTrue, Arr: -1, Len: IntLit(0), Typ: t}
	case *types.Map:
		return VMap{Nil: TTrue, Obj: -1, Typ: t}
	case *types.Interface:
		return VIface{Nil: TTrue, Typ: t}
	case *types.Signature:
		return VOpaque{Typ: t, Name: "nilfunc"}
	case *types.Chan:
		return VChan{Nil: TTrue, Obj: -1, Typ: t}
	}
	return VOpaque{Typ: t, Name: "zero"}
}

func intRange(b *types.Basic) (lo, hi string, ok bool) {
	switch b.Kind() {
	case types.Int, types.Int64:
		return "(- 9223372036854775808)", "9223372036854775807", true
	case types.Int32:
		return "(- 2147483648)", "2147483647", true
	case types.Int16:
		return "(- 32768)", "32767", true
	case types.Int8:
		return "(- 128)", "127", true
	case types.Uint, types.Uint64, types.Uintptr:
		return "0", "18446744073709551615", true
	case types.Uint32:
		return "0", "4294967295", true
	case types.Uint16:
		return "0", "65535", true
	case types.Uint8:
		return "0", "255", true
	}
	return "", "", false
}

// symbolic creates an unconstrained value of type t named after its access path.
func (x *Exec) symbolic(st *State, t types.Type, name string) Value {
	if isByteSlice(t) {
		nilT := x.sym.Named(name+".isnil", SBool)
		b := x.sym.Named(name, SBytes)
		st.assume(Implies(nilT, Eq(b, Term{"bytes.empty", SBytes})))
		return VBytes{Nil: nilT, B: b}
	}
	switch u := t.Underlying().(type) {
	case *types.Basic:
		s, ok := scalarSort(t)
		if !ok {
			return VOpaque{Typ: t, Name: name}
		}
		v := x.sym.Named(name, s)
		if s == SInt {
			if lo, hi, ok := intRange(u); ok {
				st.assume(App(SBool, "and", App(SBool, "<=", Term{lo, SInt}, v), App(SBool, "<=", v, Term{hi, SInt})))
			}
		}
		return VScalar{v}
	case *types.Pointer:
		nilT := x.sym.Named(name+".isnil", SBool)
		// the pointee of a pointer to something that has a nil flag of its own (a pointer to a pointer: the
		// cell of a captured variable) gets a name of its own: under the same name the two nil flags would
		// be one symbol, and a non-nil cell would make its content non-nil
		pname := name
		switch u.Elem().Underlying().(type) {
		case *types.Pointer, *types.Slice, *types.Map, *types.Interface, *types.Chan:
			pname = name + ".val"
		}
		obj := x.alloc(st, VLazy{Typ: u.Elem(), Name: pname})
		if x.symObjs == nil {
			x.symObjs = map[int]bool{}
		}
		x.symObjs[obj] = true // the pointee of an input / havocked pointer: never a fresh allocation
		return VPtr{Nil: nilT, Loc: &Loc{Obj: obj}, Typ: t}
	case *types.Struct:
		f := make([]Value, u.NumFields())
		for i := range f {
			f[i] = VLazy{Typ: u.Field(i).Type(), Name: name + "." + u.Field(i).Name()}
		}
		return VStruct{f}
	case *types.Array:
		n := int(u.Len())
		if n > 64 {
			return VOpaque{Typ: t, Name: name}
		}
		e := make([]Value, n)
		for i := range e {
			e[i] = VLazy{Typ: u.Elem(), Name: fmt.Sprintf("%s[%d]", name, i)}
		}
		return VArray{e}
	case *types.Slice:
		nilT := x.sym.Named(name+".isnil", SBool)
		ln := x.sym.Named(name+".len", SInt)
		st.assume(And(Ge(ln, IntLit(0)), Le(ln, IntLit(1<<48)))) // no slice has more than 2^48 elements
		st.assume(Implies(nilT, Eq(ln, IntLit(0))))
		arr := x.alloc(st, &VAbsArr{Len: ln, Elem: u.Elem(), Name: name})
		return VSlice{Nil: nilT, Arr: arr, Len: ln, Typ: t}
	case *types.Map:
		nilT := x.sym.Named(name+".isnil", SBool)
		if isStringMap(t) {
			a := x.sym.Named(name, SMapSS)
			st.assume(Implies(nilT, Eq(a, Term{"smap.empty", SMapSS})))
			obj := x.alloc(st, MapSS{A: a})
			return VMap{Nil: nilT, Obj: obj, Typ: t}
		}
		ln := x.sym.Named(name+".len", SInt)
		st.assume(Ge(ln, IntLit(0)))
		st.assume(Implies(nilT, Eq(ln, IntLit(0))))
		obj := x.alloc(st, &MapGen{Name: name, Typ: u, Sym: true, LenT: ln})
		return VMap{Nil: nilT, Obj: obj, Typ: t}
	case *types.Interface:
		nilT := x.sym.Named(name+".isnil", SBool)
		id := x.sym.Named(name+".id", SErr)
		return VIface{Nil: nilT, Id: id, Typ: t}
	case *types.Chan:
		// an input channel: possibly nil, possibly closed, identity symbolic (it may be the same channel as another input)
		nilT := x.sym.Named(name+".isnil", SBool)
		ln := x.sym.Named(name+".len", SInt)
		st.assume(Ge(ln, IntLit(0)))
		obj := x.alloc(st, &ChanObj{Typ: t, Cap: x.sym.Named(name+".cap", SInt), Closed: x.sym.Named(name+".closed", SBool), Name: name, Len: ln})
		return VChan{Nil: nilT, Obj: obj, Typ: t, Id: x.sym.Named(name+".id", SErr)}
	}
	return VOpaque{Typ: t, Name: name}
}

func typeShort(t types.Type) string {
	s := types.TypeString(t, func(p *types.Package) string { return p.Name() })
	return s
}

func valStr(v Value) string {
	switch vv := v.(type) {
	case VScalar:
		return vv.T.S
	case VPtr:
		if vv.Loc == nil {
			return "nilptr"
		}
		return fmt.Sprintf("ptr(#%d%v nil=%s)", vv.Loc.Obj, vv.Loc.Path, vv.Nil.S)
	case VStruct:
		var parts []string
		for _, f := range vv.F {
			parts = append(parts, valStr(f))
		}
		return "{" + strings.Join(parts, ", ") + "}"
	case VLazy:
		return "lazy(" + vv.Name + ")"
	case nil:
		return "<nil>"
	}
	return fmt.Sprintf("%T", v)
}
