package main

// Transactions whose command slice is filled inside a loop: every command put
// into a []*t_aio.Command is checked, at the moment it is stored or appended,
// to be a step of the guarantee relations from an ARBITRARY database state
// (type-directed, no annotation). The batch submitted later is then summarised
// by a rely step.

import (
	"fmt"
	"go/types"
	"os"
	"strings"

	"golang.org/x/tools/go/ssa"
)

func isCommandPtr(t types.Type) bool {
	p, ok := t.Underlying().(*types.Pointer)
	return ok && strings.HasSuffix(types.TypeString(p.Elem(), nil), "t_aio.Command")
}

func isCommandSlice(t types.Type) bool {
	s, ok := t.Underlying().(*types.Slice)
	return ok && isCommandPtr(s.Elem())
}

// onElementStored is called after a store; it reacts to *t_aio.Command values
// written into array cells.
func (x *Exec) onElementStored(st *State, loc *Loc, val Value) {
	if st.ghost == nil || st.ghost.db == nil || st.ghost.db.mode != "coroutine" {
		return
	}
	p, ok := val.(VPtr)
	if !ok || p.Typ == nil || !isCommandPtr(p.Typ) || p.Loc == nil || p.Nil.IsTrue() {
		return
	}
	if len(loc.Path) == 0 {
		return
	}
	switch st.heap[loc.Obj].(type) {
	case *VAbsArr, VArray:
	default:
		return
	}
	// a concrete literal slice is checked when it is submitted; abstract arrays now
	if _, abs := st.heap[loc.Obj].(*VAbsArr); !abs {
		return
	}
	x.checkBatchCommand(st, p)
	if arr, ok := st.heap[loc.Obj].(*VAbsArr); ok {
		if k, ok := x.commandKind(st, p); ok {
			cp := *arr
			cp.CmdKinds = map[int64]bool{}
			for kk := range arr.CmdKinds {
				cp.CmdKinds[kk] = true
			}
			cp.CmdKinds[k] = true
			st.heap[loc.Obj] = &cp
		}
	}
}

func (x *Exec) commandKind(st *State, p VPtr) (int64, bool) {
	kv, _ := x.fieldOf(st, p, x.taioType("Command"), "Kind")
	if kv == nil {
		return 0, false
	}
	return isIntLit(x.scalar(st, kv))
}

// checkBatchCommand proves that executing the command from an arbitrary
// database state is a guarantee step.
func (x *Exec) checkBatchCommand(st *State, p VPtr) {
	if os.Getenv("GOVC_DEBUG_BATCH") != "" {
		fmt.Fprintln(os.Stderr, "checkBatchCommand", st.ghost.db.mode)
	}
	g := st.ghost.db
	x.siteAsserts(st, st.top(), "batch", "", map[string]TV{"cmd": {p, p.Typ}})
	if st.dead {
		return
	}
	kind, ok := x.commandKind(st, p)
	if !ok {
		x.unsupported(st, "command kind of a batched command is not a constant")
		return
	}
	cs := cmdSpecByKind(x.storeKindName(kind))
	if cs == nil || cs.Read != nil {
		return
	}
	_ = g
	// the check runs on a copy of the state: the command may fork (row present or not, failure), every
	// outcome is a guarantee step from an arbitrary reachable database; the state itself goes on untouched
	chk := st.clone()
	cg := chk.ghost.db
	cg.x = x
	cg.relyStep("rely") // an arbitrary reachable database
	pre := cg.snapshot()
	now := cg.now
	cc := &callCtx{common: &ssa.CallCommon{}}
	for _, out := range x.coroCommandAt(chk, cc, p, chk.top()) {
		if out.st == nil || out.st.dead {
			continue
		}
		rec := &YieldRec{Kind: "store", Pre: pre, Now: now, Pos: "batched command"}
		if out.rec != nil {
			rec.Cmds = []*CmdRec{out.rec}
		}
		rec.Post = out.st.ghost.db.snapshot()
		x.batchCounter++
		x.guaranteeObligations(out.st, cc, rec, 1000+x.batchCounter)
	}
}

// coroCommandAt is coroCommand with obligations positioned at the current instruction.
func (x *Exec) coroCommandAt(st *State, c *callCtx, cv Value, fr *Frame) []cmdOut {
	return x.coroCommand(st, c, cv)
}

// commandKindsStoredIn scans a function for the StoreKind constants of the
// command literals it builds (used when a command slice is havocked at a loop).
func (x *Exec) commandKindsStoredIn(fn *ssa.Function) map[int64]bool {
	out := map[int64]bool{}
	for _, b := range fn.Blocks {
		for _, in := range b.Instrs {
			st, ok := in.(*ssa.Store)
			if !ok {
				continue
			}
			fa, ok := st.Addr.(*ssa.FieldAddr)
			if !ok {
				continue
			}
			if pt, ok := fa.X.Type().Underlying().(*types.Pointer); ok && strings.HasSuffix(types.TypeString(pt.Elem(), nil), "t_aio.Command") && fa.Field == 0 {
				if c, ok := st.Val.(*ssa.Const); ok && c.Value != nil {
					out[c.Int64()] = true
				}
			}
		}
	}
	return out
}
