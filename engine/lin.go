package main

// linearizes(e): the per-operation linearization contract. e is a boolean
// expression over
//    pre_<table>(key), post_<table>(key)   rows before / after the linearization transaction
//    T                                      a clock value observed by the coroutine up to that point
// In an ensures clause that is CHECKED (the function's own return) the engine
// proves that some store transaction of the path, paired with some observed
// clock value, satisfies e. In an ensures clause that is ASSUMED (recursive
// retry, callee contract) fresh witnesses are introduced, related to the
// current database by the rely relation, and appended to the path's log so
// that a caller returning the callee's result can use them.
//
// views: pview(p), tview(t), sview(s), lview(l), cview(c) lower the API
// objects to the spec datatypes of /verif/spec/40_seq.smt2.

import (
	"fmt"
	"go/ast"
	"go/types"
	"strings"
)

type viewField struct {
	path string // Go selector path from the object
	kind string // str int smap bytes optstr optint mesg
}

type viewSpec struct {
	ctor   string
	sort   Sort
	fields []viewField
}

var viewSpecs = map[string]viewSpec{
	"pview": {"mk.pview", "PView", []viewField{{"Id", "str"}, {"State", "int"}, {"Param.Headers", "smap"}, {"Param.Data", "bytes"},
		{"Value.Headers", "smap"}, {"Value.Data", "bytes"}, {"Timeout", "int"}, {"IdempotencyKeyForCreate", "opt"},
		{"IdempotencyKeyForComplete", "opt"}, {"Tags", "smap"}, {"CreatedOn", "opt"}, {"CompletedOn", "opt"}}},
	"tview": {"mk.tview", "TView", []viewField{{"Id", "str"}, {"ProcessId", "opt"}, {"State", "int"}, {"RootPromiseId", "str"},
		{"Recv", "bytes"}, {"Mesg", "mesg"}, {"Timeout", "int"}, {"Counter", "int"}, {"Attempt", "int"}, {"Ttl", "int"},
		{"ExpiresAt", "int"}, {"CreatedOn", "opt"}, {"CompletedOn", "opt"}}},
	"sview": {"mk.sview", "SView", []viewField{{"Id", "str"}, {"Description", "str"}, {"Cron", "str"}, {"Tags", "smap"},
		{"PromiseId", "str"}, {"PromiseTimeout", "int"}, {"PromiseParam.Headers", "smap"}, {"PromiseParam.Data", "bytes"},
		{"PromiseTags", "smap"}, {"LastRunTime", "opt"}, {"NextRunTime", "int"}, {"IdempotencyKey", "opt"}, {"CreatedOn", "int"}}},
	"lview": {"mk.lview", "LView", []viewField{{"ResourceId", "str"}, {"ExecutionId", "str"}, {"ProcessId", "str"}, {"Ttl", "int"}, {"ExpiresAt", "int"}}},
	"cview": {"mk.cview", "CView", []viewField{{"Id", "str"}, {"PromiseId", "str"}, {"RootPromiseId", "str"}, {"Recv", "bytes"}, {"Mesg", "mesg"},
		{"Timeout", "int"}, {"CreatedOn", "int"}}},
}

func (g *GhostDB) viewOf(env *SpecEnv, st *State, name string, obj TV) TV {
	vs := viewSpecs[name]
	var args []Term
	for _, f := range vs.fields {
		cur := obj
		for _, part := range strings.Split(f.path, ".") {
			cur = env.selectField(cur, part)
		}
		switch f.kind {
		case "opt":
			p, ok := g.x.force(st, cur.V).(VPtr)
			if !ok {
				env.fail("view field %s is not a pointer", f.path)
			}
			args = append(args, env.optTerm(p, cur.T))
		case "mesg":
			// the three fields of *message.Mesg
			for _, fn := range []string{"Type", "Root", "Leaf"} {
				args = append(args, env.term(env.selectField(cur, fn)))
			}
		default:
			args = append(args, env.term(cur))
		}
	}
	return TV{specTerm{App(vs.sort, vs.ctor, args...)}, nil}
}

// linBuiltin resolves names that are only meaningful inside linearizes().
func (g *GhostDB) linBuiltin(env *SpecEnv, st *State, name string, args []TV) (TV, bool) {
	if env.lin == nil {
		return TV{}, false
	}
	switch {
	case name == "anykey" && len(args) == 1:
		return TV{VScalar{g.x.sym.Named("anykey."+env.term(args[0]).S, SStr)}, types.Typ[types.String]}, true
	case name == "count_pre" && len(args) >= 2:
		tn, ok1 := g.x.sym.LitValue(env.term(args[0]).S)
		pred, ok2 := g.x.sym.LitValue(env.term(args[1]).S)
		if !ok1 || !ok2 || env.lin.Pre[tn] == nil {
			return TV{}, false
		}
		var cargs []Term
		for _, a := range args[2:] {
			cargs = append(cargs, env.term(a))
		}
		t := g.countTerm(env.lin.Pre[tn], pred, cargs)
		st.assume(Ge(t, IntLit(0)))
		return TV{VScalar{t}, types.Typ[types.Int64]}, true
	case name == "T" && args == nil:
		return TV{VScalar{env.lin.T}, types.Typ[types.Int64]}, true
	case name == "Tx" && args == nil:
		// the clock at the linearization transaction: T >= Tx says the clock value the answer is based on
		// was observed at or after that transaction (a value captured before it would be stale)
		tx := env.lin.Tx
		if tx.S == "" {
			tx = env.lin.T
		}
		return TV{VScalar{tx}, types.Typ[types.Int64]}, true
	case strings.HasPrefix(name, "pre_") && len(args) == 1:
		tn := strings.TrimPrefix(name, "pre_")
		tv := env.lin.Pre[tn]
		if tv == nil {
			return TV{}, false
		}
		k := env.term(args[0])
		g.noteKey(k)
		return TV{specTerm{g.rowAt(st, tv, k)}, nil}, true
	case strings.HasPrefix(name, "post_") && len(args) == 1:
		tn := strings.TrimPrefix(name, "post_")
		tv := env.lin.Post[tn]
		if tv == nil {
			return TV{}, false
		}
		k := env.term(args[0])
		g.noteKey(k)
		return TV{specTerm{g.rowAt(st, tv, k)}, nil}, true
	}
	return TV{}, false
}

type linPoint struct {
	Pre, Post map[string]*TableVer
	T         Term
	Tx        Term // the clock value at which the linearization transaction itself was submitted
	Label     string
}

// evalLinearizes evaluates linearizes(e).
func (g *GhostDB) evalLinearizes(env *SpecEnv, st *State, e ast.Expr) TV {
	boolT := types.Typ[types.Bool]
	if env.assume {
		// fresh witnesses: rely from the current state to pre, the operation's own
		// step pre -> post, and the current state continues from post.
		g.relyStep("rely")
		pre := g.snapshot()
		// the linearization transaction itself is a guarantee step
		g.relyStep("rely")
		post := g.snapshot()
		old := g.now
		t := g.x.sym.Fresh("T.callee", SInt)
		if old.S != "" {
			st.assume(Ge(t, old))
		}
		g.advanceClock(st)
		st.assume(Le(t, g.now))
		tx := g.x.sym.Fresh("Tx.callee", SInt)
		st.assume(Le(tx, g.now))
		lp := &linPoint{Pre: pre, Post: post, T: t, Tx: tx, Label: "callee"}
		g.calleeLin = append(append([]*linPoint(nil), g.calleeLin...), lp)
		save := env.lin
		env.lin = lp
		r := env.term(env.eval(e))
		env.lin = save
		return TV{VScalar{r}, boolT}
	}
	// checked: some transaction of the path with some observed clock value
	var times []Term
	if g.now0.S != "" {
		times = append(times, g.now0)
	}
	var alts []Term
	seen := map[string]bool{}
	for _, y := range g.yields {
		if y.Now.S != "" && !seen[y.Now.S] {
			seen[y.Now.S] = true
			times = append(times, y.Now)
		}
		if y.Kind != "store" {
			continue
		}
		for _, t := range times {
			save := env.lin
			env.lin = &linPoint{Pre: y.Pre, Post: y.Post, T: t, Tx: y.Now}
			r := env.term(env.eval(e))
			env.lin = save
			alts = append(alts, r)
		}
	}
	for _, lp := range g.calleeLin {
		save := env.lin
		env.lin = lp
		r := env.term(env.eval(e))
		env.lin = save
		alts = append(alts, r)
	}
	// an operation that touches the database with no transaction at all (e.g. a
	// request rejected before the first submission) linearizes at entry
	if len(alts) == 0 {
		save := env.lin
		env.lin = &linPoint{Pre: g.entry, Post: g.entry, T: g.now0, Tx: g.now0}
		r := env.term(env.eval(e))
		env.lin = save
		alts = append(alts, r)
	}
	return TV{VScalar{Or(alts...)}, boolT}
}

var _ = fmt.Sprintf
