package main

// Contracts: Gobra-style //@ lines kept in comment-only files
// (zz_contracts_verif.go, build tag verif) next to the code they describe.
//
//   //@ func <Name>                 Name as printed by go/ssa relative to the package:
//                                   F, (*T).M, T.M, F$1 (first closure of F)
//   //@ props C01 C03               properties the block serves (default tags of its clauses)
//   //@ requires <expr>
//   //@ ensures [C03] <expr>        optional property tags override the block default
//   //@ loop <n> invariant <expr>   n-th loop header of the function in source order (1-based)
//   //@ <directive> args...         engine directives (see DESIGN.md): nopanic, seqspec, ...
//
// Expressions are Go expressions (go/parser) over the parameters, the results
// (result, result0, result1 or their declared names), old(e), a ==> b at top
// level, package constants, len(), and spec functions from /verif/spec/*.smt2.

import (
	"bufio"
	"fmt"
	"go/ast"
	"go/constant"
	"go/parser"
	"go/token"
	"go/types"
	"os"
	"path/filepath"
	"regexp"
	"strconv"
	"strings"

	"golang.org/x/tools/go/ssa"
)

type Clause struct {
	Text  string
	Props []string
	Where string
	Loop  int
}

type Contract struct {
	Key        string
	Props      []string
	Requires   []Clause
	Ensures    []Clause
	Invariants []Clause
	Directives map[string][]string
	Where      string
	Lines      int
}

type Macro struct {
	Params []string
	Body   string
	Where  string
}

type Contracts struct {
	byKey  map[string]*Contract
	files  []string
	macros map[string]*Macro
}

var tagRe = regexp.MustCompile(`^\[([A-Za-z0-9 ,]+)\]\s*`)

func LoadContracts(repoDir string) (*Contracts, error) {
	cs := &Contracts{byKey: map[string]*Contract{}, macros: map[string]*Macro{}}
	err := filepath.Walk(repoDir, func(path string, info os.FileInfo, err error) error {
		if err != nil {
			return nil
		}
		if info.IsDir() {
			if info.Name() == ".git" {
				return filepath.SkipDir
			}
			return nil
		}
		if info.Name() != "zz_contracts_verif.go" {
			return nil
		}
		rel, _ := filepath.Rel(repoDir, filepath.Dir(path))
		cs.files = append(cs.files, path)
		return cs.parseFile(path, rel)
	})
	return cs, err
}

func (cs *Contracts) parseFile(path, pkgRel string) error {
	f, err := os.Open(path)
	if err != nil {
		return err
	}
	defer f.Close()
	sc := bufio.NewScanner(f)
	sc.Buffer(make([]byte, 1<<20), 1<<20)
	var cur *Contract
	ln := 0
	for sc.Scan() {
		ln++
		line := strings.TrimSpace(sc.Text())
		if !strings.HasPrefix(line, "//@") {
			continue
		}
		body := strings.TrimSpace(strings.TrimPrefix(line, "//@"))
		if body == "" {
			continue
		}
		where := fmt.Sprintf("%s:%d", filepath.Join(pkgRel, filepath.Base(path)), ln)
		word := body
		rest := ""
		if i := strings.IndexAny(body, " \t"); i >= 0 {
			word, rest = body[:i], strings.TrimSpace(body[i+1:])
		}
		if word == "macro" {
			// //@ macro name(a, b) <expr>
			i := strings.Index(rest, "(")
			j := strings.Index(rest, ")")
			if i < 0 || j < i {
				return fmt.Errorf("%s: bad macro header", where)
			}
			var params []string
			for _, p := range strings.Split(rest[i+1:j], ",") {
				if p = strings.TrimSpace(p); p != "" {
					params = append(params, p)
				}
			}
			cs.macros[strings.TrimSpace(rest[:i])] = &Macro{Params: params, Body: strings.TrimSpace(rest[j+1:]), Where: where}
			continue
		}
		if word == "func" {
			key := pkgRel + ":" + rest
			cur = &Contract{Key: key, Directives: map[string][]string{}, Where: where}
			cs.byKey[key] = cur
			continue
		}
		if cur == nil {
			return fmt.Errorf("%s: //@ line before any //@ func", where)
		}
		cur.Lines++
		takeTags := func(s string) ([]string, string) {
			if m := tagRe.FindStringSubmatch(s); m != nil {
				tags := strings.FieldsFunc(m[1], func(r rune) bool { return r == ' ' || r == ',' })
				return tags, s[len(m[0]):]
			}
			return nil, s
		}
		switch word {
		case "props":
			cur.Props = strings.Fields(rest)
		case "requires":
			tags, e := takeTags(rest)
			cur.Requires = append(cur.Requires, Clause{Text: e, Props: tags, Where: where})
		case "ensures":
			tags, e := takeTags(rest)
			cur.Ensures = append(cur.Ensures, Clause{Text: e, Props: tags, Where: where})
		case "loop":
			parts := strings.SplitN(rest, " ", 3)
			if len(parts) < 3 || parts[1] != "invariant" {
				return fmt.Errorf("%s: expected 'loop <n> invariant <expr>'", where)
			}
			n, err := strconv.Atoi(parts[0])
			if err != nil {
				return fmt.Errorf("%s: bad loop ordinal", where)
			}
			tags, e := takeTags(parts[2])
			cur.Invariants = append(cur.Invariants, Clause{Text: e, Props: tags, Where: where, Loop: n})
		default:
			cur.Directives[word] = append(cur.Directives[word], rest)
		}
	}
	return sc.Err()
}

// allProps: every property this unit is run for (block props, serves, nopanic, overflow and clause tags).
func (c *Contract) allProps() []string {
	seen := map[string]bool{}
	var out []string
	add := func(p string) {
		if p != "" && !seen[p] && p != "captured" && p != "body" && p != "await" && p != "config" {
			seen[p] = true
			out = append(out, p)
		}
	}
	for _, p := range c.Props {
		add(p)
	}
	for _, d := range []string{"serves", "nopanic", "overflow"} {
		for _, l := range c.Directives[d] {
			for _, p := range strings.Fields(l) {
				add(p)
			}
		}
	}
	for _, cl := range append(append(append([]Clause(nil), c.Requires...), c.Ensures...), c.Invariants...) {
		for _, p := range cl.Props {
			add(p)
		}
	}
	for _, l := range c.Directives["site"] {
		if i := strings.Index(l, " assert "); i >= 0 {
			if m := tagRe.FindStringSubmatch(l[i+len(" assert "):]); m != nil {
				for _, p := range strings.FieldsFunc(m[1], func(r rune) bool { return r == ' ' || r == ',' }) {
					add(p)
				}
			}
		}
	}
	return out
}

func (c *Contract) clauseProps(cl Clause) []string {
	// the markers captured / body / await are not properties: a clause that carries only markers belongs to
	// the properties of its contract
	var ps []string
	for _, p := range cl.Props {
		if p != "captured" && p != "body" && p != "await" && p != "config" {
			ps = append(ps, p)
		}
	}
	if len(ps) > 0 {
		return ps
	}
	return c.Props
}

// --------------------------------------------------------------------------
// spec expression evaluation

type TV struct {
	V Value
	T types.Type
}

type SpecEnv struct {
	x     *Exec
	st    *State
	heap0 map[int]Value // entry heap for old()
	vars  map[string]TV
	pkg   *types.Package
	inOld bool
	// extra resolves engine-provided names (ghost state)
	extra  func(name string, args []TV) (TV, bool)
	lin    *linPoint
	assume bool
	// assumeMode: the expression is being assumed (loop invariant after havoc), so ghost
	// bindings it states may be materialised
	assumeMode bool
}

var impliesRe = regexp.MustCompile(`==>`)

// splitImplies splits "a ==> b ==> c" at top level (outside parentheses).
func splitImplies(s string) []string {
	depth := 0
	var parts []string
	last := 0
	for i := 0; i < len(s); i++ {
		switch s[i] {
		case '(', '[', '{':
			depth++
		case ')', ']', '}':
			depth--
		case '"':
			for i++; i < len(s) && s[i] != '"'; i++ {
				if s[i] == '\\' {
					i++
				}
			}
		case '=':
			if depth == 0 && strings.HasPrefix(s[i:], "==>") {
				parts = append(parts, strings.TrimSpace(s[last:i]))
				last = i + 3
				i += 2
			}
		}
	}
	parts = append(parts, strings.TrimSpace(s[last:]))
	return parts
}

// rewriteInnerImplies turns (a ==> b) inside parentheses into implies(a, b).
func rewriteImplies(s string) string {
	parts := splitImplies(s)
	for i, p := range parts {
		parts[i] = rewriteParens(p)
	}
	if len(parts) == 1 {
		return parts[0]
	}
	out := parts[len(parts)-1]
	for i := len(parts) - 2; i >= 0; i-- {
		out = "implies(" + parts[i] + ", " + out + ")"
	}
	return out
}

func rewriteParens(s string) string {
	if !strings.Contains(s, "==>") {
		return s
	}
	var b strings.Builder
	i := 0
	for i < len(s) {
		if s[i] == '(' {
			// find matching paren
			depth := 0
			j := i
			for ; j < len(s); j++ {
				if s[j] == '(' {
					depth++
				} else if s[j] == ')' {
					depth--
					if depth == 0 {
						break
					}
				}
			}
			inner := s[i+1 : j]
			// a call's argument list may contain commas; handle each argument
			args := splitTopLevel(inner, ',')
			for k, a := range args {
				args[k] = rewriteImplies(a)
			}
			b.WriteString("(" + strings.Join(args, ", ") + ")")
			i = j + 1
			continue
		}
		b.WriteByte(s[i])
		i++
	}
	return b.String()
}

func splitTopLevel(s string, sep byte) []string {
	depth := 0
	var parts []string
	last := 0
	for i := 0; i < len(s); i++ {
		switch s[i] {
		case '(', '[', '{':
			depth++
		case ')', ']', '}':
			depth--
		case '"':
			for i++; i < len(s) && s[i] != '"'; i++ {
				if s[i] == '\\' {
					i++
				}
			}
		default:
			if s[i] == sep && depth == 0 {
				parts = append(parts, s[last:i])
				last = i + 1
			}
		}
	}
	return append(parts, s[last:])
}

// guarded evaluates the right operand of "a && b" / "a ==> b". If b cannot be evaluated on this path (it
// talks about a recorded call that did not happen here, say) and a cannot hold on this path either, b is
// irrelevant: ok is false and the caller takes the value the connective has for a false left operand.
func (e *SpecEnv) guarded(a Term, y ast.Expr) (t Term, ok bool) {
	defer func() {
		if r := recover(); r != nil {
			if _, isSpec := r.(specError); isSpec && e.st != nil && !e.x.feasible(e.st, a) {
				t, ok = Term{}, false
				return
			}
			panic(r)
		}
	}()
	return e.term(e.eval(y)), true
}

func parseSpec(text string) (ast.Expr, error) {
	return parser.ParseExpr(rewriteImplies(text))
}

func (e *SpecEnv) fail(format string, args ...interface{}) TV {
	panic(specError(fmt.Sprintf(format, args...)))
}

type specError string

// EvalBool evaluates a boolean spec expression to a term.
func (e *SpecEnv) EvalBool(text string) (t Term, err error) {
	defer func() {
		if r := recover(); r != nil {
			if se, ok := r.(specError); ok {
				err = fmt.Errorf("spec %q: %s", text, string(se))
				return
			}
			panic(r)
		}
	}()
	ex, perr := parseSpec(text)
	if perr != nil {
		return Term{}, fmt.Errorf("spec %q: %v", text, perr)
	}
	tv := e.eval(ex)
	return e.term(tv), nil
}

func (e *SpecEnv) EvalValue(text string) (tv TV, err error) {
	defer func() {
		if r := recover(); r != nil {
			if se, ok := r.(specError); ok {
				err = fmt.Errorf("spec %q: %s", text, string(se))
				return
			}
			panic(r)
		}
	}()
	ex, perr := parseSpec(text)
	if perr != nil {
		return TV{}, fmt.Errorf("spec %q: %v", text, perr)
	}
	return e.eval(ex), nil
}

// term lowers a value to an SMT term (scalars, bytes, string maps, options).
func (e *SpecEnv) term(tv TV) Term {
	v := e.x.force(e.st, tv.V)
	switch vv := v.(type) {
	case VScalar:
		return vv.T
	case VBytes:
		return vv.B
	case VMap:
		if isStringMap(vv.Typ) {
			if vv.Obj < 0 {
				return Term{"smap.empty", SMapSS}
			}
			return e.heapOf()[vv.Obj].(MapSS).A
		}
	case VPtr:
		return e.optTerm(vv, tv.T)
	case specTerm:
		return vv.T
	case VIface:
		// an interface holding a scalar (a local that was converted to any at its last use): the scalar
		if vv.Dyn != nil {
			if sc, ok := e.x.force(e.st, vv.Val).(VScalar); ok {
				return sc.T
			}
		}
	}
	return e.fail("cannot lower %T to a term", v).V.(VScalar).T
}

// specTerm wraps an SMT term of a spec-only sort (rows, options, views).
type specTerm struct{ T Term }

func (e *SpecEnv) heapOf() map[int]Value {
	if e.inOld && e.heap0 != nil {
		return e.heap0
	}
	return e.st.heap
}

func (e *SpecEnv) loadLoc(l *Loc, t types.Type) Value {
	if e.inOld && e.heap0 != nil {
		root, ok := e.heap0[l.Obj]
		if !ok {
			return e.x.symbolic(e.st, t, "old.unknown")
		}
		v, err := getPath(root, l.Path)
		if err != nil {
			// lazily materialised later: the entry value is the one materialised now
			return e.x.load(e.st, l)
		}
		if lz, ok := v.(VLazy); ok {
			_ = lz
			return e.x.load(e.st, l)
		}
		return v
	}
	return e.x.load(e.st, l)
}

// optTerm turns a pointer to a scalar into an option term.
func (e *SpecEnv) optTerm(p VPtr, t types.Type) Term {
	pt, ok := t.Underlying().(*types.Pointer)
	if !ok {
		return e.fail("opt of non pointer").V.(VScalar).T
	}
	s, ok := scalarSort(pt.Elem())
	if !ok {
		return e.fail("opt of pointer to non scalar %s", pt.Elem()).V.(VScalar).T
	}
	var none, some string
	var os Sort
	switch s {
	case SInt:
		none, some, os = "inone", "isome", SOptI
	case SStr:
		none, some, os = "none", "some", SOptS
	default:
		return e.fail("opt of sort %s", s).V.(VScalar).T
	}
	if p.Loc == nil || p.Nil.IsTrue() {
		return Term{none, os}
	}
	v := e.loadLoc(p.Loc, pt.Elem())
	inner := e.x.scalar(e.st, v)
	return Ite(p.Nil, Term{none, os}, App(os, some, inner))
}

func (e *SpecEnv) lookupPkgConst(pkgName, name string) (TV, bool) {
	for _, pp := range e.x.prog.ppkg {
		if pp.Types == nil || pp.Types.Name() != pkgName {
			continue
		}
		if !strings.HasPrefix(pp.PkgPath, repoModule) && pkgName != "sql" && pkgName != "math" {
			continue
		}
		obj := pp.Types.Scope().Lookup(name)
		if c, ok := obj.(*types.Const); ok {
			return e.constTV(c.Val(), c.Type()), true
		}
	}
	return TV{}, false
}

func (e *SpecEnv) constTV(v constant.Value, t types.Type) TV {
	switch v.Kind() {
	case constant.Int:
		i, _ := constant.Int64Val(v)
		return TV{VScalar{IntLit(i)}, t}
	case constant.String:
		return TV{VScalar{e.x.sym.StrLit(constant.StringVal(v))}, t}
	case constant.Bool:
		return TV{VScalar{BoolLit(constant.BoolVal(v))}, t}
	}
	return e.fail("unsupported constant kind")
}

type vnil struct{}

func (e *SpecEnv) eval(ex ast.Expr) TV {
	switch n := ex.(type) {
	case *ast.ParenExpr:
		return e.eval(n.X)
	case *ast.Ident:
		switch n.Name {
		case "nil":
			return TV{vnil{}, nil}
		case "true":
			return TV{VScalar{TTrue}, types.Typ[types.Bool]}
		case "false":
			return TV{VScalar{TFalse}, types.Typ[types.Bool]}
		}
		if tv, ok := e.vars[n.Name]; ok {
			return tv
		}
		if e.extra != nil {
			if tv, ok := e.extra(n.Name, nil); ok {
				return tv
			}
		}
		if e.pkg != nil {
			if c, ok := e.pkg.Scope().Lookup(n.Name).(*types.Const); ok {
				return e.constTV(c.Val(), c.Type())
			}
		}
		// spec constants (nullary functions of the prelude)
		if sig, ok := e.x.prog.spec.sigs[n.Name]; ok && len(sig.args) == 0 {
			return TV{specTerm{Term{n.Name, sig.res}}, nil}
		}
		return e.fail("unknown identifier %s", n.Name)
	case *ast.BasicLit:
		switch n.Kind {
		case token.INT:
			i, err := strconv.ParseInt(n.Value, 0, 64)
			if err != nil {
				return e.fail("bad int literal %s", n.Value)
			}
			return TV{VScalar{IntLit(i)}, types.Typ[types.Int]}
		case token.STRING:
			s, err := strconv.Unquote(n.Value)
			if err != nil {
				return e.fail("bad string literal")
			}
			return TV{VScalar{e.x.sym.StrLit(s)}, types.Typ[types.String]}
		}
		return e.fail("unsupported literal %s", n.Value)
	case *ast.SelectorExpr:
		if dn := dottedName(n); dn != "" {
			root := strings.SplitN(dn, ".", 2)[0]
			if _, isVar := e.vars[root]; !isVar {
				if sig, ok := e.x.prog.spec.sigs[dn]; ok && len(sig.args) == 0 {
					return TV{specTerm{Term{dn, sig.res}}, nil}
				}
			}
		}
		if id, ok := n.X.(*ast.Ident); ok {
			if _, isVar := e.vars[id.Name]; !isVar {
				if tv, ok := e.lookupPkgConst(id.Name, n.Sel.Name); ok {
					return tv
				}
			}
		}
		base := e.eval(n.X)
		return e.selectField(base, n.Sel.Name)
	case *ast.StarExpr:
		base := e.eval(n.X)
		p, ok := e.x.force(e.st, base.V).(VPtr)
		if !ok {
			return e.fail("deref of non pointer")
		}
		elem := base.T.Underlying().(*types.Pointer).Elem()
		if p.Loc == nil {
			return TV{e.x.symbolic(e.st, elem, e.x.sym.Fresh("spec.nilderef", SBool).S), elem}
		}
		return TV{e.loadLoc(p.Loc, elem), elem}
	case *ast.IndexExpr:
		base := e.eval(n.X)
		idx := e.eval(n.Index)
		return e.index(base, idx)
	case *ast.UnaryExpr:
		v := e.eval(n.X)
		switch n.Op {
		case token.NOT:
			return TV{VScalar{Not(e.term(v))}, types.Typ[types.Bool]}
		case token.SUB:
			return TV{VScalar{Sub(IntLit(0), e.term(v))}, v.T}
		}
		return e.fail("unsupported unary %s", n.Op)
	case *ast.BinaryExpr:
		return e.binary(n)
	case *ast.CallExpr:
		return e.call(n)
	}
	return e.fail("unsupported spec expression %T", ex)
}

func (e *SpecEnv) selectField(base TV, name string) TV {
	v := e.x.force(e.st, base.V)
	// spec-level datatypes: selector functions of the prelude
	if stv, ok := v.(specTerm); ok {
		sel := e.x.prog.spec.selectorFor(stv.T.Sort, name)
		if sel == "" {
			return e.fail("sort %s has no selector %s", stv.T.Sort, name)
		}
		sig := e.x.prog.spec.sigs[sel]
		return TV{specTerm{App(sig.res, sel, stv.T)}, nil}
	}
	t := base.T
	if t == nil {
		return e.fail("selector .%s on untyped value", name)
	}
	if pt, ok := t.Underlying().(*types.Pointer); ok {
		p, ok := v.(VPtr)
		if !ok {
			return e.fail("selector on %T", v)
		}
		// a field reached through a pointer is loaded from its heap location, so that a lazily
		// materialised field (map, slice, pointer) is materialised once and shared with the code
		if p.Loc != nil && !e.inOld {
			if stt, ok := pt.Elem().Underlying().(*types.Struct); ok {
				for i := 0; i < stt.NumFields(); i++ {
					if stt.Field(i).Name() == name {
						return TV{e.x.load(e.st, p.Loc.Sub(i)), stt.Field(i).Type()}
					}
				}
			}
		}
		if p.Loc == nil {
			v = e.x.symbolic(e.st, pt.Elem(), e.x.sym.Fresh("spec.nilderef", SBool).S)
		} else {
			v = e.loadLoc(p.Loc, pt.Elem())
			v = e.x.force(e.st, v)
		}
		t = pt.Elem()
	}
	stt, ok := t.Underlying().(*types.Struct)
	if !ok {
		return e.fail("selector .%s on non struct %s", name, t)
	}
	sv, ok := v.(VStruct)
	if !ok {
		return e.fail("selector .%s on %T", name, v)
	}
	for i := 0; i < stt.NumFields(); i++ {
		if stt.Field(i).Name() == name {
			fv := sv.F[i]
			if lz, isLazy := fv.(VLazy); isLazy {
				fv = e.x.symbolic(e.st, lz.Typ, lz.Name)
			}
			return TV{fv, stt.Field(i).Type()}
		}
	}
	return e.fail("no field %s in %s", name, t)
}

func (e *SpecEnv) index(base, idx TV) TV {
	v := e.x.force(e.st, base.V)
	switch b := v.(type) {
	case VSlice:
		elem := base.T.Underlying().(*types.Slice).Elem()
		it := e.term(idx)
		if b.Arr < 0 {
			return TV{e.x.symbolic(e.st, elem, e.x.sym.Fresh("spec.oob", SBool).S), elem}
		}
		switch arr := e.heapOf()[b.Arr].(type) {
		case VArray:
			k, ok := isIntLit(it)
			if !ok || int(k)+b.Lo >= len(arr.E) || k < 0 {
				return TV{e.x.symbolic(e.st, elem, e.x.sym.Fresh("spec.oob", SBool).S), elem}
			}
			return TV{arr.E[b.Lo+int(k)], elem}
		case *VAbsArr:
			for _, c := range arr.Cells {
				if c.Idx.S == it.S {
					return TV{c.Val, elem}
				}
			}
			k, _ := e.x.absCell(e.st, b.Arr, it)
			return TV{e.st.heap[b.Arr].(*VAbsArr).Cells[k].Val, elem}
		}
	case VMap:
		if isStringMap(b.Typ) {
			val, _ := e.x.mapLookupSS(e.st, b, e.term(idx))
			return TV{VScalar{val}, types.Typ[types.String]}
		}
		// any other map: the value stored under a key whose entry is known (has_key / an earlier lookup)
		if b.Obj >= 0 && e.inOld && e.heap0 != nil {
			// old(m[k]): the entry as it was on entry (no materialisation into the old heap)
			if mg, ok := e.heap0[b.Obj].(*MapGen); ok {
				k := e.term(idx)
				elem := b.Typ.Underlying().(*types.Map).Elem()
				for _, en := range mg.Entries {
					if en.Key.S == k.S {
						return TV{zeroIfAbsent(e.x.force(e.st, en.Val), en.Present), elem}
					}
				}
				return e.fail("old(): the map entry was not known on entry")
			}
		}
		if b.Obj >= 0 {
			if mg, ok := e.st.heap[b.Obj].(*MapGen); ok {
				k := e.term(idx)
				elem := b.Typ.Underlying().(*types.Map).Elem()
				for i, en := range mg.Entries {
					if en.Key.S == k.S {
						v := e.x.force(e.st, en.Val)
						cp := *mg
						cp.Entries = append([]MapEntry(nil), mg.Entries...)
						cp.Entries[i].Val = v
						e.st.heap[b.Obj] = &cp
						return TV{zeroIfAbsent(v, en.Present), elem}
					}
				}
				if mg.Sym {
					ent := MapEntry{Key: k, Present: e.x.sym.Fresh(mg.Name+".has", SBool), Val: e.x.symbolic(e.st, elem, fmt.Sprintf("%s[%s]", mg.Name, k.S))}
					cp := *mg
					cp.Entries = append(append([]MapEntry(nil), mg.Entries...), ent)
					e.st.heap[b.Obj] = &cp
					return TV{zeroIfAbsent(ent.Val, ent.Present), elem}
				}
			}
		}
	case specTerm:
		if b.T.Sort == SMapSS {
			return TV{specTerm{App(SOptS, "select", b.T, e.term(idx))}, nil}
		}
	}
	return e.fail("unsupported index on %T", v)
}

func (e *SpecEnv) isNil(tv TV) Term {
	switch v := e.x.force(e.st, tv.V).(type) {
	case VPtr:
		return v.Nil
	case VSlice:
		return v.Nil
	case VBytes:
		return v.Nil
	case VMap:
		return v.Nil
	case VIface:
		return v.Nil
	case VChan:
		return v.Nil
	case vnil:
		return TTrue
	case VClosure:
		return TFalse
	case VOpaque:
		return BoolLit(strings.HasPrefix(v.Name, "nil"))
	}
	return e.fail("nil comparison of %T", tv.V).V.(VScalar).T
}

func (e *SpecEnv) binary(n *ast.BinaryExpr) TV {
	boolT := types.Typ[types.Bool]
	switch n.Op {
	case token.LAND:
		a := e.term(e.eval(n.X))
		if a.IsFalse() {
			return TV{VScalar{TFalse}, boolT}
		}
		b, ok := e.guarded(a, n.Y)
		if !ok {
			return TV{VScalar{TFalse}, boolT}
		}
		return TV{VScalar{And(a, b)}, boolT}
	case token.LOR:
		a := e.term(e.eval(n.X))
		if a.IsTrue() {
			return TV{VScalar{TTrue}, boolT}
		}
		return TV{VScalar{Or(a, e.term(e.eval(n.Y)))}, boolT}
	}
	a := e.eval(n.X)
	b := e.eval(n.Y)
	_, an := a.V.(vnil)
	_, bn := b.V.(vnil)
	if an || bn {
		var t Term
		if an {
			t = e.isNil(b)
		} else {
			t = e.isNil(a)
		}
		if n.Op == token.EQL {
			return TV{VScalar{t}, boolT}
		} else if n.Op == token.NEQ {
			return TV{VScalar{Not(t)}, boolT}
		}
		return e.fail("bad nil comparison")
	}
	// pointer identity
	if pa, ok := e.x.force(e.st, a.V).(VPtr); ok {
		if pb, ok := e.x.force(e.st, b.V).(VPtr); ok {
			eq := e.x.ptrEq(pa, pb)
			if n.Op == token.EQL {
				return TV{VScalar{eq}, boolT}
			}
			return TV{VScalar{Not(eq)}, boolT}
		}
	}
	// values of different reference kinds (a map and a pointer held in two interfaces) are never equal
	if n.Op == token.EQL || n.Op == token.NEQ {
		fa, fb := e.x.force(e.st, a.V), e.x.force(e.st, b.V)
		_, am := fa.(VMap)
		_, bm := fb.(VMap)
		_, ap := fa.(VPtr)
		_, bp := fb.(VPtr)
		if (am && bp) || (ap && bm) {
			return TV{VScalar{BoolLit(n.Op == token.NEQ)}, boolT}
		}
	}
	// interface values (errors): identity of the dynamic value
	if ia, ok := e.x.force(e.st, a.V).(VIface); ok {
		if ib, ok := e.x.force(e.st, b.V).(VIface); ok && (n.Op == token.EQL || n.Op == token.NEQ) {
			eq := e.x.ifaceEq(e.st, ia, ib)
			if n.Op == token.EQL {
				return TV{VScalar{eq}, boolT}
			}
			return TV{VScalar{Not(eq)}, boolT}
		}
	}
	// channel identity
	if ca, ok := e.x.force(e.st, a.V).(VChan); ok {
		if cb, ok := e.x.force(e.st, b.V).(VChan); ok {
			eq := chanEq(ca, cb)
			if n.Op == token.EQL {
				return TV{VScalar{eq}, boolT}
			}
			return TV{VScalar{Not(eq)}, boolT}
		}
	}
	ta, tb := e.term(a), e.term(b)
	switch n.Op {
	case token.EQL:
		return TV{VScalar{Eq(ta, tb)}, boolT}
	case token.NEQ:
		return TV{VScalar{Not(Eq(ta, tb))}, boolT}
	case token.LSS:
		return TV{VScalar{Lt(ta, tb)}, boolT}
	case token.LEQ:
		return TV{VScalar{Le(ta, tb)}, boolT}
	case token.GTR:
		return TV{VScalar{Gt(ta, tb)}, boolT}
	case token.GEQ:
		return TV{VScalar{Ge(ta, tb)}, boolT}
	case token.ADD:
		if ta.Sort == SStr {
			return TV{VScalar{e.x.strCat(ta, tb)}, a.T}
		}
		return TV{VScalar{Add(ta, tb)}, a.T} // mathematical
	case token.SUB:
		return TV{VScalar{Sub(ta, tb)}, a.T}
	case token.QUO:
		return TV{VScalar{App(SInt, "goquo", ta, tb)}, a.T}
	case token.AND:
		return TV{VScalar{bitop("band", ta, tb)}, a.T}
	case token.OR:
		return TV{VScalar{bitop("bor", ta, tb)}, a.T}
	}
	return e.fail("unsupported binary operator %s", n.Op)
}

func (e *SpecEnv) call(n *ast.CallExpr) TV {
	boolT := types.Typ[types.Bool]
	fname := ""
	switch f := n.Fun.(type) {
	case *ast.Ident:
		fname = f.Name
	case *ast.SelectorExpr:
		fname = dottedName(f)
	}
	switch fname {
	case "linearizes":
		if e.st.ghost == nil || e.st.ghost.db == nil {
			return e.fail("linearizes() without database ghost")
		}
		return e.st.ghost.db.evalLinearizes(e, e.st, n.Args[0])
	case "old":
		save := e.inOld
		e.inOld = true
		r := e.eval(n.Args[0])
		// force evaluation now so that lowering happens in the old heap
		if _, isPtr := r.V.(VPtr); !isPtr {
			if _, isStruct := r.V.(VStruct); !isStruct {
				if _, isNil := r.V.(vnil); !isNil {
					r = TV{specTerm{e.term(r)}, r.T}
				}
			}
		}
		e.inOld = save
		return r
	case "implies":
		a := e.term(e.eval(n.Args[0]))
		if a.IsFalse() {
			return TV{VScalar{TTrue}, boolT}
		}
		b, ok := e.guarded(a, n.Args[1])
		if !ok {
			return TV{VScalar{TTrue}, boolT}
		}
		return TV{VScalar{Implies(a, b)}, boolT}
	case "ite":
		c := e.term(e.eval(n.Args[0]))
		return TV{specTerm{Ite(c, e.term(e.eval(n.Args[1])), e.term(e.eval(n.Args[2])))}, nil}
	case "len":
		a := e.eval(n.Args[0])
		switch v := e.x.force(e.st, a.V).(type) {
		case VSlice:
			return TV{VScalar{v.Len}, types.Typ[types.Int]}
		case VScalar:
			return TV{VScalar{App(SInt, "slen", v.T)}, types.Typ[types.Int]}
		case VBytes:
			return TV{VScalar{App(SInt, "bytes.len", v.B)}, types.Typ[types.Int]}
		case VMap:
			if isStringMap(v.Typ) {
				return TV{VScalar{App(SInt, "smap.len", e.term(a))}, types.Typ[types.Int]}
			}
			if v.Obj >= 0 {
				return TV{VScalar{e.heapOf()[v.Obj].(*MapGen).LenT}, types.Typ[types.Int]}
			}
			return TV{VScalar{IntLit(0)}, types.Typ[types.Int]}
		}
		return e.fail("len of %T", a.V)
	case "sprintf":
		// the same uninterpreted function the fmt.Sprintf intrinsic produces
		ft := e.term(e.eval(n.Args[0]))
		var parts []Term
		var sorts []Sort
		fname := "sprintf." + ft.S
		for _, a := range n.Args[1:] {
			t := e.term(e.eval(a))
			parts = append(parts, t)
			sorts = append(sorts, t.Sort)
			fname += "." + string(t.Sort)
		}
		f := e.x.sym.Func(fname, sorts, SStr)
		if len(parts) == 0 {
			return TV{VScalar{Term{f, SStr}}, types.Typ[types.String]}
		}
		return TV{VScalar{App(SStr, f, parts...)}, types.Typ[types.String]}
	case "tmplsubst":
		// tmplsubst(text, k1, v1, k2, v2, ...): what text/template writes for the template text and the
		// variable map {k1: v1, ...}: the same uninterpreted function the Execute intrinsic produces for
		// text/template (html/template produces a different one: values are escaped)
		if len(n.Args) >= 1 && len(n.Args)%2 == 1 {
			text := e.term(e.eval(n.Args[0]))
			m := Term{"smap.empty", SMapSS}
			for i := 1; i+1 < len(n.Args); i += 2 {
				m = App(SMapSS, "store", m, e.term(e.eval(n.Args[i])), App(SOptS, "some", e.term(e.eval(n.Args[i+1]))))
			}
			f := e.x.sym.Func("template.subst", []Sort{SStr, SMapSS}, SStr)
			return TV{VScalar{App(SStr, f, text, m)}, types.Typ[types.String]}
		}
		return e.fail("tmplsubst(text, k, v, ...)")
	case "isnil":
		return TV{VScalar{e.isNil(e.eval(n.Args[0]))}, boolT}
	case "opt":
		a := e.eval(n.Args[0])
		p, ok := e.x.force(e.st, a.V).(VPtr)
		if !ok {
			return e.fail("opt() of non pointer")
		}
		return TV{specTerm{e.optTerm(p, a.T)}, nil}
	}
	if m, ok := e.x.prog.contracts.macros[fname]; ok {
		if len(m.Params) != len(n.Args) {
			return e.fail("macro %s expects %d arguments", fname, len(m.Params))
		}
		saved := map[string]*TV{}
		vals := make([]TV, len(n.Args))
		for i, a := range n.Args {
			vals[i] = e.eval(a)
		}
		for i, p := range m.Params {
			if old, ok := e.vars[p]; ok {
				o := old
				saved[p] = &o
			} else {
				saved[p] = nil
			}
			e.vars[p] = vals[i]
		}
		body, err := parseSpec(m.Body)
		if err != nil {
			return e.fail("macro %s: %v", fname, err)
		}
		r := e.eval(body)
		for p, o := range saved {
			if o == nil {
				delete(e.vars, p)
			} else {
				e.vars[p] = *o
			}
		}
		return r
	}
	args := make([]TV, len(n.Args))
	for i, a := range n.Args {
		args[i] = e.eval(a)
	}
	if e.extra != nil {
		if tv, ok := e.extra(fname, args); ok {
			return tv
		}
	}
	// spec function of the prelude
	if sig, ok := e.x.prog.spec.sigs[fname]; ok {
		if len(sig.args) != len(args) {
			return e.fail("spec function %s expects %d arguments", fname, len(sig.args))
		}
		ts := make([]Term, len(args))
		for i, a := range args {
			ts[i] = e.term(a)
			if ts[i].Sort != sig.args[i] && !(sig.args[i] == SInt && ts[i].Sort == SInt) {
				return e.fail("spec function %s argument %d: have sort %s want %s", fname, i, ts[i].Sort, sig.args[i])
			}
		}
		r := App(sig.res, fname, ts...)
		if sig.res == SBool || sig.res == SInt || sig.res == SStr {
			return TV{VScalar{r}, nil}
		}
		return TV{specTerm{r}, nil}
	}
	return e.fail("unknown function %s in spec", fname)
}

// --------------------------------------------------------------------------

// specEnvFor builds the evaluation environment for a function's contract.
func (x *Exec) specEnvFor(st *State, fn *ssa.Function, params []Value, results []Value, heap0 map[int]Value) *SpecEnv {
	return x.specEnvForSig(st, sigOfFunc(fn), fn, params, results, heap0)
}

// specEnvForSig binds parameter and result names of a callee described by cs; fn (may be nil:
// interface method) supplies the free variables of a closure.
func (x *Exec) specEnvForSig(st *State, cs *calleeSig, fn *ssa.Function, params []Value, results []Value, heap0 map[int]Value) *SpecEnv {
	env := &SpecEnv{x: x, st: st, heap0: heap0, vars: map[string]TV{}}
	env.pkg = cs.pkg
	// "ghost <name> int|string|bool": an arbitrary but fixed constant of the function under verification.
	// Whatever is proved about it is proved for every value: universal statements without quantifiers.
	if x.contract != nil && fn != nil && fn == x.fn {
		for _, d := range x.contract.Directives["ghost"] {
			f := strings.Fields(d)
			if len(f) != 2 {
				continue
			}
			switch f[1] {
			case "int":
				env.vars[f[0]] = TV{VScalar{x.sym.Named("ghost."+f[0], SInt)}, types.Typ[types.Int]}
			case "string":
				env.vars[f[0]] = TV{VScalar{x.sym.Named("ghost."+f[0], SStr)}, types.Typ[types.String]}
			case "bool":
				env.vars[f[0]] = TV{VScalar{x.sym.Named("ghost."+f[0], SBool)}, types.Typ[types.Bool]}
			}
		}
	}
	for i, p := range cs.params {
		if i < len(params) {
			env.vars[p.Name()] = TV{params[i], p.Type()}
		}
	}
	var freeVars []*ssa.FreeVar
	if fn != nil {
		freeVars = fn.FreeVars
	}
	for i, fv := range freeVars {
		idx := len(cs.params) + i
		if idx < len(params) {
			// a free variable is a pointer to the captured variable: the name denotes the variable
			if pt, ok := fv.Type().Underlying().(*types.Pointer); ok {
				if p, ok := params[idx].(VPtr); ok && p.Loc != nil {
					env.vars[fv.Name()] = TV{env.loadLoc(p.Loc, pt.Elem()), pt.Elem()}
					continue
				}
			}
			env.vars[fv.Name()] = TV{params[idx], fv.Type()}
		}
	}
	if results != nil {
		sig := cs.results
		for i := 0; i < sig.Len() && i < len(results); i++ {
			tv := TV{results[i], sig.At(i).Type()}
			env.vars[fmt.Sprintf("result%d", i)] = tv
			if nm := sig.At(i).Name(); nm != "" && nm != "_" {
				env.vars[nm] = tv
			}
			if i == 0 {
				env.vars["result"] = tv
			}
			// conventional names
			if types.TypeString(sig.At(i).Type(), nil) == "error" {
				if _, taken := env.vars["err"]; !taken {
					env.vars["err"] = tv
				}
			} else if i == 0 {
				if _, taken := env.vars["res"]; !taken {
					env.vars["res"] = tv
				}
			}
		}
	}
	return env
}

// dottedName flattens a.b.c selector chains (spec function names contain dots).
func dottedName(e ast.Expr) string {
	switch n := e.(type) {
	case *ast.Ident:
		return n.Name
	case *ast.SelectorExpr:
		base := dottedName(n.X)
		if base == "" {
			return ""
		}
		return base + "." + n.Sel.Name
	}
	return ""
}

// zeroIfAbsent is the value a map lookup yields when presence is symbolic: the stored value if the key is
// present, the zero value (nil, length 0) otherwise. Only reference-like values are adjusted.
func zeroIfAbsent(v Value, present Term) Value {
	if present.IsTrue() {
		return v
	}
	switch vv := v.(type) {
	case VSlice:
		vv.Nil = Or(Not(present), vv.Nil)
		vv.Len = Ite(present, vv.Len, IntLit(0))
		return vv
	case VPtr:
		vv.Nil = Or(Not(present), vv.Nil)
		return vv
	case VIface:
		vv.Nil = Or(Not(present), vv.Nil)
		return vv
	case VMap:
		vv.Nil = Or(Not(present), vv.Nil)
		return vv
	case VChan:
		vv.Nil = Or(Not(present), vv.Nil)
		return vv
	}
	return v
}
