package main

// SQL front end: a recursive-descent parser for exactly the statement forms
// used by sqlite.go / postgres.go. The SQL text is taken from the string
// constants of the current source tree on every run.
//
// Dropped by this extraction (stated in evidence): indexes, column affinity
// and collation, LIKE/glob semantics (uninterpreted predicate), JSON path
// syntax (uninterpreted), query plans, locking, fsync.

import (
	"fmt"
	"strconv"
	"strings"
)

type sqlTok struct {
	kind string // ident, num, str, param, op, eof
	text string
	n    int
}

func sqlLex(src string) ([]sqlTok, error) {
	var toks []sqlTok
	i := 0
	qmark := 0
	for i < len(src) {
		c := src[i]
		switch {
		case c == ' ' || c == '\t' || c == '\n' || c == '\r':
			i++
		case c == '-' && i+1 < len(src) && src[i+1] == '-':
			for i < len(src) && src[i] != '\n' {
				i++
			}
		case c >= '0' && c <= '9':
			j := i
			for j < len(src) && src[j] >= '0' && src[j] <= '9' {
				j++
			}
			toks = append(toks, sqlTok{kind: "num", text: src[i:j]})
			i = j
		case c == '\'':
			j := i + 1
			for j < len(src) && src[j] != '\'' {
				j++
			}
			toks = append(toks, sqlTok{kind: "str", text: src[i+1 : j]})
			i = j + 1
		case c == '?' && i+1 < len(src) && src[i+1] >= '0' && src[i+1] <= '9':
			// SQLite's numbered form ?N; a plain ? that follows is numbered one past the largest number assigned so far
			j := i + 1
			for j < len(src) && src[j] >= '0' && src[j] <= '9' {
				j++
			}
			n, _ := strconv.Atoi(src[i+1 : j])
			toks = append(toks, sqlTok{kind: "param", n: n - 1})
			if n > qmark {
				qmark = n
			}
			i = j
		case c == '?':
			toks = append(toks, sqlTok{kind: "param", n: qmark})
			qmark++
			i++
		case c == '$' && i+1 < len(src) && src[i+1] >= '0' && src[i+1] <= '9':
			j := i + 1
			for j < len(src) && src[j] >= '0' && src[j] <= '9' {
				j++
			}
			n, _ := strconv.Atoi(src[i+1 : j])
			toks = append(toks, sqlTok{kind: "param", n: n - 1})
			i = j
		case c == '%' && i+1 < len(src) && src[i+1] == 's':
			toks = append(toks, sqlTok{kind: "hole", text: "%s"})
			i += 2
		case c == '_' || c >= 'a' && c <= 'z' || c >= 'A' && c <= 'Z':
			j := i
			for j < len(src) && (src[j] == '_' || src[j] >= 'a' && src[j] <= 'z' || src[j] >= 'A' && src[j] <= 'Z' || src[j] >= '0' && src[j] <= '9') {
				j++
			}
			toks = append(toks, sqlTok{kind: "ident", text: src[i:j]})
			i = j
		default:
			for _, op := range []string{"::", "!=", "<>", "<=", ">=", "@>", "||"} {
				if strings.HasPrefix(src[i:], op) {
					toks = append(toks, sqlTok{kind: "op", text: op})
					i += len(op)
					goto next
				}
			}
			if strings.ContainsRune("=<>&+-*(),.;|", rune(c)) {
				toks = append(toks, sqlTok{kind: "op", text: string(c)})
				i++
			} else {
				return nil, fmt.Errorf("sql: unexpected character %q", c)
			}
		next:
		}
	}
	toks = append(toks, sqlTok{kind: "eof"})
	return toks, nil
}

// ---- AST

type SQLExpr interface{}

type (
	SQLCol   struct{ Table, Name string }
	SQLParam struct{ N int }
	SQLInt   struct{ V int64 }
	SQLStr   struct{ V string }
	SQLNull  struct{}
	SQLHole  struct{} // %s placeholder of a statement template
	SQLBin   struct {
		Op   string
		L, R SQLExpr
	}
	SQLNot    struct{ E SQLExpr }
	SQLIsNull struct {
		E   SQLExpr
		Neg bool
	}
	SQLIn struct {
		E    SQLExpr
		List []SQLExpr
		Neg  bool
	}
	SQLExists struct {
		Sel *SQLSelect
		Neg bool
	}
	SQLCast struct {
		E    SQLExpr
		Type string
	}
	SQLFunc struct {
		Name string
		Args []SQLExpr
	}
	SQLExcluded struct{ Name string }
)

type SQLOrder struct {
	Col  SQLCol
	Desc bool
}

type SQLSelect struct {
	DistinctOn []string
	Proj       []SQLExpr
	From       string
	Alias      string
	Where      SQLExpr
	GroupBy    []string
	OrderBy    []SQLOrder
	Limit      SQLExpr
	HasHole    bool
}

type SQLSet struct {
	Col string
	E   SQLExpr
}

type SQLStmt struct {
	Kind         string // insert, update, delete, select, create-table, create-index, drop-table
	Table        string
	Cols         []string
	Values       []SQLExpr
	Select       *SQLSelect
	PragmaValue  string
	HasConflict  bool
	ConflictCol  string
	ConflictSets []SQLSet // nil => DO NOTHING
	ConflictCond SQLExpr
	Sets         []SQLSet
	Where        SQLExpr
	// DDL
	IfNotExists bool
	ColDefs     []SQLColDef
	PrimaryKey  []string
	Text        string
	NParams     int
}

type SQLColDef struct {
	Collate string
	Name    string
	Type    string
	Unique  bool
	Primary bool
	AutoInc bool
	Default *int64
}

type sqlParser struct {
	toks []sqlTok
	pos  int
	maxP int
}

func (p *sqlParser) peek() sqlTok { return p.toks[p.pos] }
func (p *sqlParser) next() sqlTok {
	t := p.toks[p.pos]
	if p.pos < len(p.toks)-1 {
		p.pos++
	}
	return t
}
func (p *sqlParser) isKw(kw string) bool {
	t := p.peek()
	return t.kind == "ident" && strings.EqualFold(t.text, kw)
}
func (p *sqlParser) isKwAt(off int, kw string) bool {
	if p.pos+off >= len(p.toks) {
		return false
	}
	t := p.toks[p.pos+off]
	return t.kind == "ident" && strings.EqualFold(t.text, kw)
}
func (p *sqlParser) acceptKw(kw string) bool {
	if p.isKw(kw) {
		p.pos++
		return true
	}
	return false
}
func (p *sqlParser) expectKw(kw string) {
	if !p.acceptKw(kw) {
		panic(fmt.Errorf("sql: expected %s, got %q", kw, p.peek().text))
	}
}
func (p *sqlParser) isOp(op string) bool {
	t := p.peek()
	return t.kind == "op" && t.text == op
}
func (p *sqlParser) acceptOp(op string) bool {
	if p.isOp(op) {
		p.pos++
		return true
	}
	return false
}
func (p *sqlParser) expectOp(op string) {
	if !p.acceptOp(op) {
		panic(fmt.Errorf("sql: expected %q, got %q", op, p.peek().text))
	}
}
func (p *sqlParser) ident() string {
	t := p.next()
	if t.kind != "ident" {
		panic(fmt.Errorf("sql: expected identifier, got %q", t.text))
	}
	return strings.ToLower(t.text)
}

// ParseSQL parses one or more ';'-separated statements.
func ParseSQL(src string) (stmts []*SQLStmt, err error) {
	defer func() {
		if r := recover(); r != nil {
			if e, ok := r.(error); ok {
				err = e
				return
			}
			panic(r)
		}
	}()
	toks, err := sqlLex(src)
	if err != nil {
		return nil, err
	}
	p := &sqlParser{toks: toks, maxP: -1}
	for p.peek().kind != "eof" {
		if p.acceptOp(";") {
			continue
		}
		start := p.pos
		s := p.statement()
		s.NParams = p.maxP + 1
		_ = start
		stmts = append(stmts, s)
	}
	for _, s := range stmts {
		s.Text = src
	}
	return stmts, nil
}

func (p *sqlParser) statement() *SQLStmt {
	switch {
	case p.isKw("create"):
		return p.create()
	case p.isKw("drop"):
		p.next()
		p.expectKw("table")
		return &SQLStmt{Kind: "drop-table", Table: p.ident()}
	case p.isKw("insert"):
		return p.insert()
	case p.isKw("update"):
		return p.update()
	case p.isKw("delete"):
		return p.delete()
	case p.isKw("select"):
		return &SQLStmt{Kind: "select", Select: p.selectStmt()}
	case p.isKw("pragma"):
		// PRAGMA name [= value | (value)]: kept as (name, value) for the schema lemma
		p.next()
		st := &SQLStmt{Kind: "pragma", Table: strings.ToLower(p.ident())}
		if p.acceptOp("=") || p.acceptOp("(") {
			if p.acceptOp("-") {
				st.PragmaValue = "-"
			}
			st.PragmaValue += strings.ToUpper(p.next().text)
			p.acceptOp(")")
		}
		return st
	}
	panic(fmt.Errorf("sql: unsupported statement starting with %q", p.peek().text))
}

func (p *sqlParser) create() *SQLStmt {
	p.expectKw("create")
	if p.acceptKw("index") || (p.isKw("unique") && p.isKwAt(1, "index")) {
		s := &SQLStmt{Kind: "create-index"}
		if p.acceptKw("if") {
			p.expectKw("not")
			p.expectKw("exists")
			s.IfNotExists = true
		}
		p.ident()
		p.expectKw("on")
		s.Table = p.ident()
		p.expectOp("(")
		for !p.acceptOp(")") {
			p.next()
		}
		return s
	}
	p.expectKw("table")
	s := &SQLStmt{Kind: "create-table"}
	if p.acceptKw("if") {
		p.expectKw("not")
		p.expectKw("exists")
		s.IfNotExists = true
	}
	s.Table = p.ident()
	p.expectOp("(")
	for {
		if p.isKw("primary") {
			p.next()
			p.expectKw("key")
			p.expectOp("(")
			for !p.acceptOp(")") {
				if !p.acceptOp(",") {
					s.PrimaryKey = append(s.PrimaryKey, p.ident())
				}
			}
		} else {
			cd := SQLColDef{Name: p.ident()}
			cd.Type = strings.ToUpper(p.ident())
			for !p.isOp(",") && !p.isOp(")") {
				switch {
				case p.acceptKw("unique"):
					cd.Unique = true
				case p.acceptKw("primary"):
					p.expectKw("key")
					cd.Primary = true
				case p.acceptKw("autoincrement"):
					cd.AutoInc = true
				case p.acceptKw("default"):
					neg := p.acceptOp("-")
					t := p.next()
					if t.kind != "num" {
						panic(fmt.Errorf("sql: unsupported DEFAULT %q", t.text))
					}
					v, _ := strconv.ParseInt(t.text, 10, 64)
					if neg {
						v = -v
					}
					cd.Default = &v
				case p.acceptKw("not"):
					p.expectKw("null")
				case p.acceptKw("collate"):
					cd.Collate = strings.ToUpper(p.ident())
				default:
					panic(fmt.Errorf("sql: unsupported column constraint %q", p.peek().text))
				}
			}
			if cd.Type == "SERIAL" || cd.Type == "BIGSERIAL" {
				cd.AutoInc = true
			}
			s.ColDefs = append(s.ColDefs, cd)
		}
		if p.acceptOp(",") {
			continue
		}
		p.expectOp(")")
		break
	}
	for _, k := range s.PrimaryKey {
		for i := range s.ColDefs {
			if s.ColDefs[i].Name == k {
				s.ColDefs[i].Primary = true
			}
		}
	}
	return s
}

func (p *sqlParser) insert() *SQLStmt {
	p.expectKw("insert")
	p.expectKw("into")
	s := &SQLStmt{Kind: "insert", Table: p.ident()}
	p.expectOp("(")
	for !p.acceptOp(")") {
		if !p.acceptOp(",") {
			s.Cols = append(s.Cols, p.ident())
		}
	}
	if p.acceptKw("values") {
		p.expectOp("(")
		for {
			s.Values = append(s.Values, p.expr())
			if p.acceptOp(",") {
				continue
			}
			p.expectOp(")")
			break
		}
	} else if p.isKw("select") {
		s.Select = p.selectStmt()
	} else {
		panic(fmt.Errorf("sql: insert without VALUES or SELECT"))
	}
	if p.acceptKw("on") {
		p.expectKw("conflict")
		s.HasConflict = true
		p.expectOp("(")
		s.ConflictCol = p.ident()
		p.expectOp(")")
		p.expectKw("do")
		if p.acceptKw("nothing") {
			return s
		}
		p.expectKw("update")
		p.expectKw("set")
		s.ConflictSets = p.setList()
		if s.ConflictSets == nil {
			s.ConflictSets = []SQLSet{}
		}
		if p.acceptKw("where") {
			s.ConflictCond = p.expr()
		}
	}
	return s
}

func (p *sqlParser) setList() []SQLSet {
	var sets []SQLSet
	for {
		col := p.ident()
		p.expectOp("=")
		sets = append(sets, SQLSet{Col: col, E: p.expr()})
		if !p.acceptOp(",") {
			break
		}
	}
	return sets
}

func (p *sqlParser) update() *SQLStmt {
	p.expectKw("update")
	s := &SQLStmt{Kind: "update", Table: p.ident()}
	p.expectKw("set")
	s.Sets = p.setList()
	if p.acceptKw("where") {
		s.Where = p.expr()
	}
	return s
}

func (p *sqlParser) delete() *SQLStmt {
	p.expectKw("delete")
	p.expectKw("from")
	s := &SQLStmt{Kind: "delete", Table: p.ident()}
	if p.acceptKw("where") {
		s.Where = p.expr()
	}
	return s
}

var sqlReserved = map[string]bool{"where": true, "group": true, "order": true, "limit": true, "on": true, "and": true, "or": true, "from": true}

func (p *sqlParser) selectStmt() *SQLSelect {
	p.expectKw("select")
	s := &SQLSelect{}
	if p.acceptKw("distinct") {
		p.expectKw("on")
		p.expectOp("(")
		for !p.acceptOp(")") {
			if !p.acceptOp(",") {
				s.DistinctOn = append(s.DistinctOn, p.ident())
			}
		}
	}
	for {
		s.Proj = append(s.Proj, p.expr())
		if !p.acceptOp(",") {
			break
		}
	}
	if p.acceptKw("from") {
		s.From = p.ident()
		if t := p.peek(); t.kind == "ident" && !sqlReserved[strings.ToLower(t.text)] {
			s.Alias = p.ident()
		}
	}
	if p.acceptKw("where") {
		s.Where = p.expr()
	}
	if p.peek().kind == "hole" {
		p.next()
		s.HasHole = true
	}
	if p.acceptKw("group") {
		p.expectKw("by")
		for {
			s.GroupBy = append(s.GroupBy, p.ident())
			if !p.acceptOp(",") {
				break
			}
		}
	}
	if p.acceptKw("order") {
		p.expectKw("by")
		for {
			c := p.colRef()
			o := SQLOrder{Col: c}
			if p.acceptKw("desc") {
				o.Desc = true
			} else {
				p.acceptKw("asc")
			}
			s.OrderBy = append(s.OrderBy, o)
			if !p.acceptOp(",") {
				break
			}
		}
	}
	if p.acceptKw("limit") {
		s.Limit = p.expr()
	}
	return s
}

func (p *sqlParser) colRef() SQLCol {
	a := p.ident()
	if p.acceptOp(".") {
		return SQLCol{Table: a, Name: p.ident()}
	}
	return SQLCol{Name: a}
}

// expression grammar: or > and > not > comparison > additive > bitand > primary
func (p *sqlParser) expr() SQLExpr { return p.orExpr() }

func (p *sqlParser) orExpr() SQLExpr {
	l := p.andExpr()
	for p.acceptKw("or") {
		l = SQLBin{"or", l, p.andExpr()}
	}
	return l
}

func (p *sqlParser) andExpr() SQLExpr {
	l := p.notExpr()
	for p.isKw("and") {
		p.next()
		l = SQLBin{"and", l, p.notExpr()}
	}
	return l
}

func (p *sqlParser) notExpr() SQLExpr {
	if p.isKw("not") && !p.isKwAt(1, "exists") {
		p.next()
		return SQLNot{p.notExpr()}
	}
	return p.cmpExpr()
}

func (p *sqlParser) cmpExpr() SQLExpr {
	if p.isKw("not") && p.isKwAt(1, "exists") {
		p.next()
		p.next()
		p.expectOp("(")
		sel := p.selectStmt()
		p.expectOp(")")
		return SQLExists{Sel: sel, Neg: true}
	}
	if p.acceptKw("exists") {
		p.expectOp("(")
		sel := p.selectStmt()
		p.expectOp(")")
		return SQLExists{Sel: sel}
	}
	l := p.addExpr()
	for {
		switch {
		case p.isOp("=") || p.isOp("!=") || p.isOp("<>") || p.isOp("<") || p.isOp("<=") || p.isOp(">") || p.isOp(">=") || p.isOp("@>"):
			op := p.next().text
			if op == "<>" {
				op = "!="
			}
			l = SQLBin{op, l, p.addExpr()}
		case p.isKw("is"):
			p.next()
			neg := p.acceptKw("not")
			p.expectKw("null")
			l = SQLIsNull{E: l, Neg: neg}
		case p.isKw("like"):
			p.next()
			pat := p.addExpr()
			if p.acceptKw("escape") {
				// LIKE ... ESCAPE 'c' is a different predicate (the escape character is not matched literally)
				esc := p.addExpr()
				l = SQLBin{"like escape " + fmt.Sprint(esc), l, pat}
			} else {
				l = SQLBin{"like", l, pat}
			}
		case p.isKw("in") || (p.isKw("not") && p.isKwAt(1, "in")):
			neg := p.acceptKw("not")
			p.expectKw("in")
			p.expectOp("(")
			var list []SQLExpr
			for {
				list = append(list, p.expr())
				if p.acceptOp(",") {
					continue
				}
				p.expectOp(")")
				break
			}
			l = SQLIn{E: l, List: list, Neg: neg}
		default:
			return l
		}
	}
}

func (p *sqlParser) addExpr() SQLExpr {
	l := p.bitExpr()
	for p.isOp("+") || p.isOp("-") {
		op := p.next().text
		l = SQLBin{op, l, p.bitExpr()}
	}
	return l
}

func (p *sqlParser) bitExpr() SQLExpr {
	l := p.primary()
	for p.isOp("&") || p.isOp("|") {
		op := p.next().text
		l = SQLBin{op, l, p.primary()}
	}
	return l
}

func (p *sqlParser) primary() SQLExpr {
	t := p.peek()
	var e SQLExpr
	switch {
	case t.kind == "num":
		p.next()
		v, _ := strconv.ParseInt(t.text, 10, 64)
		e = SQLInt{v}
	case t.kind == "str":
		p.next()
		e = SQLStr{t.text}
	case t.kind == "param":
		p.next()
		if t.n > p.maxP {
			p.maxP = t.n
		}
		e = SQLParam{t.n}
	case t.kind == "hole":
		p.next()
		e = SQLHole{}
	case t.kind == "op" && t.text == "(":
		p.next()
		e = p.expr()
		p.expectOp(")")
	case t.kind == "ident":
		name := strings.ToLower(t.text)
		if name == "null" {
			p.next()
			e = SQLNull{}
			break
		}
		p.next()
		if p.acceptOp("(") {
			var args []SQLExpr
			for !p.acceptOp(")") {
				if !p.acceptOp(",") {
					args = append(args, p.expr())
				}
			}
			e = SQLFunc{Name: name, Args: args}
			break
		}
		if p.acceptOp(".") {
			col := p.ident()
			if name == "excluded" {
				e = SQLExcluded{col}
			} else {
				e = SQLCol{Table: name, Name: col}
			}
			break
		}
		e = SQLCol{Name: name}
	default:
		panic(fmt.Errorf("sql: unexpected token %q", t.text))
	}
	for p.acceptOp("::") {
		e = SQLCast{E: e, Type: p.ident()}
	}
	return e
}
