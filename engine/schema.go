package main

// Database schema derived from the CREATE TABLE text of the current source
// tree, and the SMT datatypes generated from it.

import (
	"fmt"
	"strings"
)

type Column struct {
	Name    string
	Sort    Sort // OptStr, OptInt, OptBytes (every column is nullable)
	SQLType string
	Default *int64
	AutoInc bool
	Unique  bool
}

type Table struct {
	Name string
	Cols []Column
	Key  string // unique column the abstract table is keyed by
}

func (t *Table) col(name string) *Column {
	for i := range t.Cols {
		if t.Cols[i].Name == name {
			return &t.Cols[i]
		}
	}
	return nil
}

type Schema struct {
	Tables map[string]*Table
	Order  []string
	DDL    []*SQLStmt
	// columns whose declared type has no exact storage class
	TypeProblems []string
}

func sqlTypeSort(t string) (Sort, bool) {
	switch strings.ToUpper(t) {
	case "TEXT", "VARCHAR":
		return SOptS, true
	case "INTEGER", "INT", "BIGINT", "SERIAL", "BIGSERIAL", "SMALLINT":
		return SOptI, true
	case "BLOB", "BYTEA", "JSONB", "JSON":
		return SOptB, true
	}
	return "", false
}

// keyColumns: the column each abstract table is keyed by. The DDL must declare it unique.
var keyColumns = map[string]string{"promises": "id", "callbacks": "id", "schedules": "id", "locks": "resource_id", "tasks": "id", "migrations": "id"}

func SchemaFromDDL(ddl string) (*Schema, error) {
	stmts, err := ParseSQL(ddl)
	if err != nil {
		return nil, err
	}
	sc := &Schema{Tables: map[string]*Table{}, DDL: stmts}
	for _, s := range stmts {
		if s.Kind == "pragma" {
			// a pragma in the start-up script that switches off what atomicity, isolation or durability rest on
			bad := false
			switch s.Table {
			case "journal_mode":
				bad = s.PragmaValue == "OFF" || s.PragmaValue == "MEMORY"
			case "synchronous":
				bad = s.PragmaValue == "OFF" || s.PragmaValue == "0" || s.PragmaValue == "NORMAL" || s.PragmaValue == "1"
			case "read_uncommitted", "writable_schema", "ignore_check_constraints":
				bad = s.PragmaValue != "0" && s.PragmaValue != "OFF" && s.PragmaValue != "FALSE" && s.PragmaValue != "NO"
			}
			if bad {
				sc.TypeProblems = append(sc.TypeProblems, fmt.Sprintf("PRAGMA %s = %s", s.Table, s.PragmaValue))
			}
			continue
		}
		if s.Kind != "create-table" {
			continue
		}
		t := &Table{Name: s.Table}
		for _, cd := range s.ColDefs {
			srt, ok := sqlTypeSort(cd.Type)
			if !ok {
				// a declared type outside TEXT / BLOB / INTEGER (and their Postgres spellings): SQLite gives
				// such a column NUMERIC affinity and rewrites what is stored in it. Reported as a failed
				// obligation of the schema (lemmas.go); the column is modelled as text so that the run goes on.
				sc.TypeProblems = append(sc.TypeProblems, fmt.Sprintf("%s.%s %s", s.Table, cd.Name, cd.Type))
				srt = SOptS
			}
			if cd.Collate != "" && cd.Collate != "BINARY" && cd.Collate != `"C"` && cd.Collate != "C" {
				// a collation other than the binary one makes comparisons (and UNIQUE) on the column inexact:
				// ids that differ in case or trailing blanks become the same row
				sc.TypeProblems = append(sc.TypeProblems, fmt.Sprintf("%s.%s COLLATE %s", s.Table, cd.Name, cd.Collate))
			}
			if cd.Name == "sort_id" && !cd.AutoInc {
				// paging relies on sort ids that are never reused: AUTOINCREMENT / SERIAL, not a plain rowid alias
				// (which hands out max+1 again after the newest rows were deleted)
				sc.TypeProblems = append(sc.TypeProblems, fmt.Sprintf("%s.sort_id is not AUTOINCREMENT", s.Table))
			}
			t.Cols = append(t.Cols, Column{Name: cd.Name, Sort: srt, SQLType: cd.Type, Default: cd.Default, AutoInc: cd.AutoInc, Unique: cd.Unique || cd.Primary})
		}
		if k, ok := keyColumns[t.Name]; ok {
			t.Key = k
		}
		sc.Tables[t.Name] = t
		sc.Order = append(sc.Order, t.Name)
	}
	return sc, nil
}

func rowSort(table string) Sort { return Sort("Row." + table) }

// SMT renders the datatypes of the schema. Tables with a string key only.
func (sc *Schema) SMT() string {
	var b strings.Builder
	b.WriteString("; ---- generated from CREATE_TABLE_STATEMENT of the current source tree\n(declare-sort Ver 0)\n")
	for _, name := range sc.Order {
		t := sc.Tables[name]
		if name == "migrations" {
			continue
		}
		fmt.Fprintf(&b, "(declare-datatypes ((Row.%s 0)) (((mk.%s (%s.present Bool)", name, name, name)
		for _, c := range t.Cols {
			fmt.Fprintf(&b, " (%s.%s %s)", name, c.Name, c.Sort)
		}
		b.WriteString("))))\n")
		fmt.Fprintf(&b, "(define-fun absent.%s () Row.%s (mk.%s false", name, name, name)
		for _, c := range t.Cols {
			b.WriteString(" " + optNone(c.Sort).S)
		}
		b.WriteString("))\n")
		fmt.Fprintf(&b, "(declare-fun row.%s (Ver Str) Row.%s)\n", name, name)
		// functional setters, so that specs do not depend on the column order
		sels := []string{fmt.Sprintf("(%s.present r)", name)}
		for _, c := range t.Cols {
			sels = append(sels, fmt.Sprintf("(%s.%s r)", name, c.Name))
		}
		mk := func(i int) string {
			parts := append([]string(nil), sels...)
			parts[i] = "v"
			return fmt.Sprintf("(mk.%s %s)", name, strings.Join(parts, " "))
		}
		fmt.Fprintf(&b, "(define-fun set.%s.present ((r Row.%s) (v Bool)) Row.%s %s)\n", name, name, name, mk(0))
		for i, c := range t.Cols {
			fmt.Fprintf(&b, "(define-fun set.%s.%s ((r Row.%s) (v %s)) Row.%s %s)\n", name, c.Name, name, c.Sort, name, mk(i+1))
		}
	}
	return b.String()
}

func optNone(s Sort) Term {
	switch s {
	case SOptI:
		return Term{"inone", s}
	case SOptS:
		return Term{"none", s}
	case SOptB:
		return Term{"bnone", s}
	}
	panic("optNone: " + string(s))
}

func optSome(s Sort, v Term) Term {
	switch s {
	case SOptI:
		return App(s, "isome", v)
	case SOptS:
		return App(s, "some", v)
	case SOptB:
		return App(s, "bsome", v)
	}
	panic("optSome: " + string(s))
}

func optIsNull(t Term) Term {
	switch t.Sort {
	case SOptI:
		if t.S == "inone" {
			return TTrue
		}
		if strings.HasPrefix(t.S, "(isome ") {
			return TFalse
		}
		return App(SBool, "is-inone", t)
	case SOptS:
		if t.S == "none" {
			return TTrue
		}
		if strings.HasPrefix(t.S, "(some ") {
			return TFalse
		}
		return App(SBool, "is-none", t)
	case SOptB:
		if t.S == "bnone" {
			return TTrue
		}
		if strings.HasPrefix(t.S, "(bsome ") {
			return TFalse
		}
		return App(SBool, "is-bnone", t)
	}
	panic("optIsNull: " + string(t.Sort))
}

func optVal(t Term) Term {
	switch t.Sort {
	case SOptI:
		if strings.HasPrefix(t.S, "(isome ") {
			return Term{t.S[7 : len(t.S)-1], SInt}
		}
		return App(SInt, "ival", t)
	case SOptS:
		if strings.HasPrefix(t.S, "(some ") {
			return Term{t.S[6 : len(t.S)-1], SStr}
		}
		return App(SStr, "val", t)
	case SOptB:
		if strings.HasPrefix(t.S, "(bsome ") {
			return Term{t.S[7 : len(t.S)-1], SBytes}
		}
		return App(SBytes, "bval", t)
	}
	panic("optVal: " + string(t.Sort))
}

func baseSort(s Sort) Sort {
	switch s {
	case SOptI:
		return SInt
	case SOptS:
		return SStr
	case SOptB:
		return SBytes
	}
	return s
}

func optOf(s Sort) Sort {
	switch s {
	case SInt:
		return SOptI
	case SStr:
		return SOptS
	case SBytes:
		return SOptB
	}
	return s
}

func colSel(table, col string, row Term, s Sort) Term {
	return App(s, table+"."+col, row)
}

func rowPresent(table string, row Term) Term {
	if strings.HasPrefix(row.S, "absent.") {
		return TFalse
	}
	return App(SBool, table+".present", row)
}
