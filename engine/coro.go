package main

// The gocoro primitives as trusted intrinsics (DESIGN.md 1.3):
//
//   YieldAndAwait(c, store submission)
//       the database first moves by an arbitrary step of the rely relation
//       (other coroutines), then the submitted transaction is applied
//       atomically using the spec functions of its commands -- or the
//       submission fails and the transaction is applied or not.
//   c.Time() is constant between two primitives and never decreases.
//   SpawnAndAwait / Spawn+Await run the child coroutine's body; since every
//   transaction of the child is preceded by a rely step this covers every
//   interleaving with other coroutines whose transactions satisfy the rely.

import (
	"fmt"
	"go/types"
	"sort"
	"strings"
)

const gocoroPath = "github.com/resonatehq/gocoro"

// VAwait is the value of a gocoro promise (awaitable).
type VAwait struct {
	Done    bool
	Results []Value // value, error
	Typ     types.Type
	Sym     bool
	Kinds   map[string]bool
}

func init() {
	reg(gocoroPath+".YieldAndAwait", "gocoro.YieldAndAwait: see DESIGN.md 1.3 (rely step, atomic transaction by spec, or failure)",
		func(x *Exec, st *State, fr *Frame, c *callCtx) bool { return x.coroYield(st, fr, c, true) })
	reg(gocoroPath+".Yield", "gocoro.Yield: submission is processed as by YieldAndAwait; the result is delivered by Await",
		func(x *Exec, st *State, fr *Frame, c *callCtx) bool { return x.coroYield(st, fr, c, false) })
	reg(gocoroPath+".SpawnAndAwait", "gocoro.SpawnAndAwait: runs the child coroutine body under the same rely; returns its (value, error)",
		func(x *Exec, st *State, fr *Frame, c *callCtx) bool { return x.coroSpawn(st, fr, c, true) })
	reg(gocoroPath+".Spawn", "gocoro.Spawn: child body is executed at the spawn point (every other schedule is covered by the rely steps around its transactions)",
		func(x *Exec, st *State, fr *Frame, c *callCtx) bool { return x.coroSpawn(st, fr, c, false) })
	reg(gocoroPath+".Await", "gocoro.Await: returns the awaited coroutine's / submission's (value, error); the clock may advance",
		func(x *Exec, st *State, fr *Frame, c *callCtx) bool { return x.coroAwait(st, fr, c) })
	reg("("+gocoroPath+".Coroutine).Time", "c.Time(): the tick clock, constant between primitives, non-decreasing",
		func(x *Exec, st *State, fr *Frame, c *callCtx) bool {
			g := x.ghostDB(st)
			if g == nil {
				return true
			}
			return x.finish(st, fr, c, VScalar{g.now})
		})
	reg("("+gocoroPath+".Coroutine).Get", "c.Get(key): a fixed resource per key; \"config\" is the non-nil *system.Config set by System.AddOnRequest",
		func(x *Exec, st *State, fr *Frame, c *callCtx) bool {
			k := x.scalar(st, c.args[1])
			if k.S == x.sym.StrLit("config").S {
				// AddOnRequest sets the "config" resource to the system's (non-nil) *system.Config
				// before the request coroutine runs
				if ct := x.namedType(repoModule+"/internal/kernel/system", "Config"); ct != nil {
					pt := types.NewPointer(ct)
					if x.configVal == nil {
						v := x.symbolic(st, pt, "config").(VPtr)
						x.configVal = &v
					}
					st.assume(Not(x.configVal.Nil))
					return x.finish(st, fr, c, VIface{Nil: TFalse, Dyn: pt, Val: *x.configVal, Typ: c.ret.Type()})
				}
			}
			name := "c.Get(" + k.S + ")"
			return x.finish(st, fr, c, VIface{Nil: x.sym.Named(name+".isnil", SBool), Id: x.sym.Named(name+".id", SErr), Typ: c.ret.Type()})
		})
	reg("("+gocoroPath+".Coroutine).Set", "c.Set: no effect on verified state", noop)
}

func (x *Exec) taioType(name string) types.Type { return x.namedType(taioPath, name) }

// newStruct allocates a struct of named type t with the given fields set.
func (x *Exec) newStruct(st *State, t types.Type, fields map[string]Value) VPtr {
	stt := t.Underlying().(*types.Struct)
	fs := make([]Value, stt.NumFields())
	for i := range fs {
		if v, ok := fields[stt.Field(i).Name()]; ok {
			fs[i] = v
		} else {
			fs[i] = x.zero(st, stt.Field(i).Type())
		}
	}
	obj := x.alloc(st, VStruct{fs})
	return VPtr{Nil: TFalse, Loc: &Loc{Obj: obj}, Typ: types.NewPointer(t)}
}

func (x *Exec) fieldOf(st *State, p VPtr, t types.Type, name string) (Value, types.Type) {
	i, ft := structField(t, name)
	if i < 0 {
		return nil, nil
	}
	v := x.load(st, p.Loc.Sub(i))
	return x.force(st, v), ft
}

func (x *Exec) sliceOf(st *State, elems []Value, t types.Type) VSlice {
	if len(elems) == 0 {
		obj := x.alloc(st, VArray{nil})
		return VSlice{Nil: TFalse, Arr: obj, Len: IntLit(0), Typ: t}
	}
	obj := x.alloc(st, VArray{elems})
	return VSlice{Nil: TFalse, Arr: obj, Len: IntLit(int64(len(elems))), Typ: t}
}

// coroYield models gocoro.Yield / YieldAndAwait.
func (x *Exec) coroYield(st *State, fr *Frame, c *callCtx, await bool) bool {
	g := x.ghostDB(st)
	if g == nil {
		return true
	}
	subP, ok := x.force(st, c.args[1]).(VPtr)
	if !ok || subP.Loc == nil {
		x.unsupported(st, "yield of a non pointer submission")
		return true
	}
	if !x.derefCheck(st, subP, "yield of nil submission", c.common.Pos()) {
		return true
	}
	subT := x.taioType("Submission")
	kindV, _ := x.fieldOf(st, subP, subT, "Kind")
	kind, ok := isIntLit(x.scalar(st, kindV))
	if !ok {
		x.unsupported(st, "submission kind is not a constant")
		return true
	}
	tagsV, _ := x.fieldOf(st, subP, subT, "Tags")
	complT := x.taioType("Completion")
	retTuple := func(s *State, compl Value, err Value) Value {
		if await {
			return VTuple{[]Value{compl, err}}
		}
		return VAwait{Done: true, Results: []Value{compl, err}}
	}
	failed := func(s *State) Value {
		return retTuple(s, VPtr{Nil: TTrue, Typ: types.NewPointer(complT)}, x.freshErr(s, "aio.err", TFalse))
	}
	switch kind {
	case 3: // Store
		storeV, storeT := x.fieldOf(st, subP, subT, "Store")
		sp, ok := storeV.(VPtr)
		if !ok || !x.derefCheck(st, sp, "store submission is nil", c.common.Pos()) {
			return true
		}
		txV, txT := x.fieldOf(st, sp, storeT.(*types.Pointer).Elem(), "Transaction")
		tp, ok := txV.(VPtr)
		if !ok || !x.derefCheck(st, tp, "transaction is nil", c.common.Pos()) {
			return true
		}
		cmdsV, _ := x.fieldOf(st, tp, txT.(*types.Pointer).Elem(), "Commands")
		cmds, ok := cmdsV.(VSlice)
		if !ok {
			x.unsupported(st, "commands is not a slice")
			return true
		}
		// "site yield store assert e": e holds at every store submission (cmds = the transaction's commands)
		x.siteAsserts(st, fr, "yield", "store", map[string]TV{"cmds": {cmds, cmds.Typ}})
		if st.dead {
			return true
		}
		return x.coroStore(st, fr, c, cmds, tagsV, retTuple, failed)
	case 1: // Router
		g.relyStep("rely")
		g.advanceClock(st)
		g.yields = append(g.yields, &YieldRec{Kind: "router", Now: g.now, Pos: x.prog.pos(c.common.Pos())})
		s := x.failable(st, fr, c, "router", failed)
		if s == nil {
			return true
		}
		x.callCounter++
		name := fmt.Sprintf("router!%d", x.callCounter)
		matched := x.sym.Fresh(name+".matched", SBool)
		recv := x.symbolic(s, types.NewSlice(types.Typ[types.Byte]), name+".recv").(VBytes)
		// contract of the router subsystem (C19): a match carries a receiver
		s.assume(Implies(matched, Not(recv.Nil)))
		rc := x.newStruct(s, x.taioType("RouterCompletion"), map[string]Value{"Matched": VScalar{matched}, "Recv": recv})
		compl := x.newStruct(s, complT, map[string]Value{"Kind": VScalar{IntLit(1)}, "Tags": tagsV, "Router": rc})
		x.completeCall(s, c, retTuple(s, compl, VIface{Nil: TTrue, Typ: errType()}))
		return true
	case 2: // Sender
		sendV, sendT := x.fieldOf(st, subP, subT, "Sender")
		x.siteAsserts(st, fr, "yield", "sender", map[string]TV{"sub": {sendV, sendT}})
		if st.dead {
			return true
		}
		g.relyStep("rely")
		g.advanceClock(st)
		g.yields = append(g.yields, &YieldRec{Kind: "sender", Now: g.now, Pos: x.prog.pos(c.common.Pos()), Payload: sendV})
		s := x.failable(st, fr, c, "sender", failed)
		if s == nil {
			return true
		}
		x.callCounter++
		ok := x.sym.Fresh(fmt.Sprintf("sender!%d.success", x.callCounter), SBool)
		sc := x.newStruct(s, x.taioType("SenderCompletion"), map[string]Value{"Success": VScalar{ok}})
		compl := x.newStruct(s, complT, map[string]Value{"Kind": VScalar{IntLit(2)}, "Tags": tagsV, "Sender": sc})
		x.completeCall(s, c, retTuple(s, compl, VIface{Nil: TTrue, Typ: errType()}))
		return true
	case 0: // Echo
		s := x.failable(st, fr, c, "echo", failed)
		if s == nil {
			return true
		}
		echoV, _ := x.fieldOf(s, subP, subT, "Echo")
		_ = echoV
		compl := x.symbolic(s, types.NewPointer(complT), "echo.completion")
		x.completeCall(s, c, retTuple(s, compl, VIface{Nil: TTrue, Typ: errType()}))
		return true
	}
	x.unsupported(st, fmt.Sprintf("submission kind %d", kind))
	return true
}

// coroStore applies one transaction.
func (x *Exec) coroStore(st *State, fr *Frame, c *callCtx, cmds VSlice, tags Value,
	retTuple func(*State, Value, Value) Value, failed func(*State) Value) bool {
	g := st.ghost.db
	complT := x.taioType("Completion")
	// interference by other coroutines, then this transaction
	g.relyStep("rely")
	g.advanceClock(st)
	rec := &YieldRec{Kind: "store", Pre: g.snapshot(), Now: g.now, Pos: x.prog.pos(c.common.Pos())}
	if cmds.Arr < 0 {
		x.oblige(st, "assert", "transaction without commands (performCommands asserts len > 0)", TFalse, c.common.Pos(), x.assertProps)
		st.dead = true
		return true
	}
	resT := x.taioType("Result")
	finishTx := func(st *State, rec *YieldRec, results []Value, absResults *VAbsArr) {
		g := st.ghost.db
		rec.Post = g.snapshot()
		g.yields = append(append([]*YieldRec(nil), g.yields...), rec)
		if !rec.Batch {
			x.guaranteeObligations(st, c, rec, len(g.yields))
		}
		// submission failure: before the commit (no effect) or after it (effect applied)
		fail := x.sym.Fresh("store.fails", SBool)
		ts, fs := x.fork(st, fail, "store submission fails")
		if ts != nil {
			applied := x.sym.Fresh("store.fails.after.commit", SBool)
			as, ns := x.fork(ts, applied, "failure after commit")
			if ns != nil {
				ng := ns.ghost.db
				for k, v := range rec.Pre {
					ng.cur[k] = v
				}
				nr := *rec
				nr.Post = rec.Pre
				nr.Failed = true
				ng.yields = append(append([]*YieldRec(nil), ng.yields[:len(ng.yields)-1]...), &nr)
				x.completeCall(ns, c, failed(ns))
			}
			if as != nil {
				ag := as.ghost.db
				nr := *rec
				nr.Failed = true
				ag.yields = append(append([]*YieldRec(nil), ag.yields[:len(ag.yields)-1]...), &nr)
				x.completeCall(as, c, failed(as))
			}
		}
		if fs != nil {
			var resSlice Value
			if absResults != nil {
				obj := x.alloc(fs, absResults)
				resSlice = VSlice{Nil: TFalse, Arr: obj, Len: absResults.Len, Typ: types.NewSlice(types.NewPointer(resT))}
			} else {
				resSlice = x.sliceOf(fs, results, types.NewSlice(types.NewPointer(resT)))
			}
			sc := x.newStruct(fs, x.taioType("StoreCompletion"), map[string]Value{"Results": resSlice})
			compl := x.newStruct(fs, complT, map[string]Value{"Kind": VScalar{IntLit(3)}, "Tags": tags, "Store": sc})
			x.completeCall(fs, c, retTuple(fs, compl, VIface{Nil: TTrue, Typ: errType()}))
		}
	}
	switch arr := st.heap[cmds.Arr].(type) {
	case VArray:
		n, _ := isIntLit(cmds.Len)
		if n == 0 {
			x.oblige(st, "assert", "transaction without commands (performCommands asserts len > 0)", TFalse, c.common.Pos(), x.assertProps)
			st.dead = true
			return true
		}
		elems := arr.E[cmds.Lo : cmds.Lo+int(n)]
		var step func(st *State, i int, rec *YieldRec, results []Value)
		step = func(st *State, i int, rec *YieldRec, results []Value) {
			if st.dead {
				return
			}
			if i == len(elems) {
				finishTx(st, rec, results, nil)
				return
			}
			cv := x.force(st, elems[i])
			for _, out := range x.coroCommand(st, c, cv) {
				if out.st.dead {
					continue
				}
				nr := *rec
				nr.Cmds = append(append([]*CmdRec(nil), rec.Cmds...), out.rec)
				step(out.st, i+1, &nr, append(append([]Value(nil), results...), out.result))
			}
		}
		step(st, 0, rec, nil)
	case *VAbsArr:
		// concrete prefix (cells 0..k-1 known) followed by a tail of symbolic length:
		// the prefix is applied command by command, the tail is summarised by a rely step
		var prefix []Value
		for k := 0; ; k++ {
			found := false
			for _, cell := range arr.Cells {
				if v, ok := isIntLit(cell.Idx); ok && int(v) == k {
					prefix = append(prefix, cell.Val)
					found = true
					break
				}
			}
			if !found {
				break
			}
		}
		if len(prefix) > 0 {
			var stepP func(st *State, i int, rec *YieldRec, results []Value)
			stepP = func(st *State, i int, rec *YieldRec, results []Value) {
				if st.dead {
					return
				}
				if i == len(prefix) {
					g := st.ghost.db
					mid := g.snapshot()
					nrec := *rec
					nrec.Post = mid
					x.guaranteeObligations(st, c, &nrec, len(g.yields)+1)
					g.relyStep("rely") // the symbolic tail
					rec.Batch = true
					ra := &VAbsArr{Len: cmds.Len, Elem: types.NewPointer(resT), Name: "results"}
					for k, r := range results {
						ra.Cells = append(ra.Cells, AbsCell{Idx: IntLit(int64(k)), Val: r})
					}
					finishTx(st, rec, nil, ra)
					return
				}
				cv := x.force(st, prefix[i])
				for _, out := range x.coroCommand(st, c, cv) {
					if out.st.dead {
						continue
					}
					nr := *rec
					nr.Cmds = append(append([]*CmdRec(nil), rec.Cmds...), out.rec)
					stepP(out.st, i+1, &nr, append(append([]Value(nil), results...), out.result))
				}
			}
			stepP(st, 0, rec, nil)
			return true
		}
		// a batch built in a loop: every element was checked where the slice was filled
		ok := x.coroBatch(st, c, cmds, arr, rec)
		if !ok || st.dead {
			return true
		}
		finishTx(st, rec, nil, x.batchResults(st, cmds, arr, rec))
	}
	return true
}

type cmdOut struct {
	st     *State
	result Value
	rec    *CmdRec
}

// coroCommand applies one command of a transaction and builds its result.
// It may fork (a keyed read forks on the presence of the row).
func (x *Exec) coroCommand(st *State, c *callCtx, cv Value) []cmdOut {
	g := st.ghost.db
	cmdT := x.taioType("Command")
	cp, ok := cv.(VPtr)
	if !ok || !x.derefCheck(st, cp, "nil command in transaction", c.common.Pos()) {
		return nil
	}
	kindV, _ := x.fieldOf(st, cp, cmdT, "Kind")
	kind, ok := isIntLit(x.scalar(st, kindV))
	if !ok {
		x.unsupported(st, "command kind is not a constant")
		return nil
	}
	kindName := x.storeKindName(kind)
	st.trace = append(append([]string(nil), st.trace...), "cmd:"+kindName)
	cs := cmdSpecByKind(kindName)
	if cs == nil {
		x.unsupported(st, "no command spec for kind "+kindName)
		return nil
	}
	subV, subT := x.fieldOf(st, cp, cmdT, cs.cmdField())
	sp, ok := subV.(VPtr)
	if !ok {
		x.unsupported(st, "command payload is not a pointer")
		return nil
	}
	// performCommands asserts the payload for the kind is present
	x.oblige(st, "assert", fmt.Sprintf("command of kind %s carries its payload (util.Assert in performCommands)", kindName), Not(sp.Nil), c.common.Pos(), x.assertProps)
	if sp.Nil.IsTrue() || sp.Loc == nil {
		st.dead = true
		return nil
	}
	st.assume(Not(sp.Nil))
	cmdTV := TV{sp, subT}
	// command preconditions: the handlers' requires clauses
	x.checkCmdPre(st, c, cs, cmdTV)
	if st.dead {
		return nil
	}
	pre := g.snapshot()
	if cs.Read != nil {
		return x.coroRead(st, c, cs, cmdTV, pre, kind)
	}
	ce, err := g.evalCmd(st, cs, cmdTV, pre)
	if err != nil {
		x.unsupported(st, "command "+kindName+": "+err.Error())
		return nil
	}
	g.applyCmd(st, ce)
	if cs.Kind == "UpdateTask" {
		x.leaseObligation(st, c, ce)
	}
	resT := x.taioType("Result")
	_, payT := structField(resT, cs.resField())
	fields := map[string]Value{}
	for i, rs := range cs.Rows {
		fields[rs.ResField] = VScalar{ce.rowsTerms[i]}
	}
	pay := x.newStruct(st, payT.(*types.Pointer).Elem(), fields)
	result := x.newStruct(st, resT, map[string]Value{"Kind": VScalar{IntLit(kind)}, cs.resField(): pay})
	return []cmdOut{{st: st, result: result, rec: &CmdRec{Kind: kindName, Spec: cs, Cmd: cmdTV, Eval: ce, Result: result}}}
}

func (x *Exec) storeKindName(k int64) string {
	pp := x.prog.ppkg[taioPath]
	if pp == nil {
		return ""
	}
	sc := pp.Types.Scope()
	for _, n := range sc.Names() {
		if cst, ok := sc.Lookup(n).(*types.Const); ok && strings.HasSuffix(cst.Type().String(), "t_aio.StoreKind") {
			if v, ok := constInt(cst); ok && v == k {
				return n
			}
		}
	}
	return ""
}

// checkCmdPre asserts the requires clauses of the SQLite handler of the command
// (the command preconditions of Layer S) at the submission site.
func (x *Exec) checkCmdPre(st *State, c *callCtx, cs *CmdSpec, cmd TV) {
	key := handlerKey("sqlite", "SqliteStoreWorker", cs.Kind)
	ct := x.prog.contracts.byKey[key]
	if ct == nil {
		return
	}
	env := &SpecEnv{x: x, st: st, vars: map[string]TV{"cmd": cmd}}
	if pp := x.prog.ppkg[repoModule+"/internal/app/subsystems/aio/store/sqlite"]; pp != nil {
		env.pkg = pp.Types
	}
	g := st.ghost.db
	env.extra = func(name string, args []TV) (TV, bool) { return g.specBuiltin(env, st, name, args) }
	for _, cl := range ct.Requires {
		if strings.Contains(cl.Text, "stmt") {
			continue
		}
		t, err := env.EvalBool(cl.Text)
		if err != nil {
			x.unsupported(st, err.Error())
			return
		}
		x.oblige(st, "requires", fmt.Sprintf("store command %s precondition: %s", cs.Kind, cl.Text), t, c.common.Pos(), x.assertProps)
		st.assume(t)
	}
	// "submit-requires e": a precondition on the command that only the submitting coroutine can be held to (it
	// speaks about the coroutine's clock, now0() <= ... <= now()); checked where the command is submitted, not
	// assumed in the handler's own unit
	for _, d := range ct.Directives["submit-requires"] {
		props := x.assertProps
		if m := tagRe.FindStringSubmatch(d); m != nil {
			props = strings.FieldsFunc(m[1], func(r rune) bool { return r == ' ' || r == ',' })
			d = d[len(m[0]):]
		}
		t, err := env.EvalBool(d)
		if err != nil {
			x.unsupported(st, err.Error())
			return
		}
		x.oblige(st, "requires", fmt.Sprintf("store command %s precondition at submission: %s", cs.Kind, d), t, c.common.Pos(), props)
	}
}

func handlerKey(pkg, recv, kind string) string {
	name := strings.ToLower(kind[:1]) + kind[1:]
	if kind == "HeartbeatLocks" {
		name = "hearbeatLocks"
	}
	return "internal/app/subsystems/aio/store/" + pkg + ":(*" + recv + ")." + name
}

// coroRead builds the result of a read command from the abstract database.
func (x *Exec) coroRead(st *State, c *callCtx, cs *CmdSpec, cmd TV, pre map[string]*TableVer, kind int64) []cmdOut {
	g := st.ghost.db
	rd := cs.Read
	table := g.schema.Tables[rd.Table]
	recT := g.recType(rd.RecType)
	resT := x.taioType("Result")
	_, payPT := structField(resT, cs.resField())
	payT := payPT.(*types.Pointer).Elem()
	_, recsT := structField(payT, "Records")
	env := g.cmdEnv(st, cmd)
	mk := func(s *State, pay Value) cmdOut {
		result := x.newStruct(s, resT, map[string]Value{"Kind": VScalar{IntLit(kind)}, cs.resField(): pay})
		return cmdOut{st: s, result: result, rec: &CmdRec{Kind: cs.Kind, Spec: cs, Cmd: cmd, Result: result}}
	}
	if rd.Key != "" {
		kt, err := g.evalArgs(env, []string{rd.Key})
		if err != nil {
			x.unsupported(st, err.Error())
			return nil
		}
		g.noteKey(kt[0])
		row := g.rowAt(st, pre[rd.Table], kt[0])
		present := rowPresent(rd.Table, row)
		// fork on presence so that Records has a concrete shape
		ps, as := x.fork(st, present, rd.Table+" row present")
		var outs []cmdOut
		if as != nil {
			pay := x.newStruct(as, payT, map[string]Value{"RowsReturned": VScalar{IntLit(0)}, "Records": VSlice{Nil: TTrue, Arr: -1, Len: IntLit(0), Typ: recsT}})
			outs = append(outs, mk(as, pay))
		}
		if ps != nil {
			recV, err := x.recordFromRow(ps, recT, table, row, rd.Cols)
			if err != nil {
				x.unsupported(ps, err.Error())
			} else {
				pay := x.newStruct(ps, payT, map[string]Value{"RowsReturned": VScalar{IntLit(1)}, "Records": x.sliceOf(ps, []Value{recV}, recsT)})
				outs = append(outs, mk(ps, pay))
			}
		}
		return outs
	}
	// set read: an abstract list of records, each a present row satisfying the predicate
	args, err := g.evalArgs(env, rd.Args)
	if err != nil {
		x.unsupported(st, err.Error())
		return nil
	}
	x.callCounter++
	name := fmt.Sprintf("%s!%d", cs.Kind, x.callCounter)
	n := x.sym.Fresh(name+".n", SInt)
	st.assume(And(Ge(n, IntLit(0)), Le(n, IntLit(1<<48))))
	if rd.Limit != "" {
		lt, err := g.evalArgs(env, []string{rd.Limit})
		if err == nil {
			st.assume(Implies(Ge(lt[0], IntLit(0)), Le(n, lt[0])))
		}
	}
	ver := pre[rd.Table]
	keyF := x.sym.Func(name+".key", []Sort{SInt}, SStr)
	elemGen := func(s *State, idx Term) Value {
		sg := s.ghost.db
		k := App(SStr, keyF, idx)
		sg.noteKey(k)
		row := sg.rowAt(s, ver, k)
		s.assume(rowPresent(rd.Table, row))
		if _, ok := x.prog.spec.sigs[rd.Pred]; ok {
			s.assume(App(SBool, rd.Pred, append([]Term{row}, args...)...))
		}
		rv, err := x.recordFromRow(s, recT, table, row, rd.Cols)
		if err != nil {
			x.unsupported(s, err.Error())
			return VPtr{Nil: TTrue, Typ: types.NewPointer(recT)}
		}
		return rv
	}
	arr := &VAbsArr{Len: n, Elem: types.NewPointer(recT), Name: name + ".records", ElemGen: elemGen}
	obj := x.alloc(st, arr)
	recs := VSlice{Nil: Eq(n, IntLit(0)), Arr: obj, Len: n, Typ: recsT}
	fields := map[string]Value{"RowsReturned": VScalar{n}, "Records": recs}
	if i, _ := structField(payT, "LastSortId"); i >= 0 {
		fields["LastSortId"] = VScalar{x.sym.Fresh(name+".lastSortId", SInt)}
	}
	g.setReads = append(append([]*setRead(nil), g.setReads...), &setRead{Name: name, Kind: cs.Kind, N: n, KeyF: keyF, Ver: ver, Table: rd.Table, Args: args})
	return []cmdOut{mk(st, x.newStruct(st, payT, fields))}
}

type setRead struct {
	Name  string
	Kind  string
	N     Term
	KeyF  string
	Ver   *TableVer
	Table string
	Args  []Term
}

// coroBatch handles a transaction whose command slice has symbolic length.
func (x *Exec) coroBatch(st *State, c *callCtx, cmds VSlice, arr *VAbsArr, rec *YieldRec) bool {
	// the effect of an unbounded batch is summarised by a rely step: every
	// element was checked against the rely when it was put into the slice
	g := st.ghost.db
	x.oblige(st, "assert", "transaction without commands (performCommands asserts len > 0)", Gt(cmds.Len, IntLit(0)), c.common.Pos(), x.assertProps)
	g.relyStep("rely")
	rec.Batch = true
	return true
}

func (x *Exec) coroSpawn(st *State, fr *Frame, c *callCtx, await bool) bool {
	g := x.ghostDB(st)
	if g == nil {
		return true
	}
	cl, ok := x.force(st, c.args[1]).(VClosure)
	if !ok {
		x.unsupported(st, "spawn of a non closure")
		return true
	}
	g.advanceClock(st)
	// run the child body inline; its coroutine handle is the parent's (same clock model)
	args := append([]Value{c.args[0]}, cl.Binds...)
	nf := x.pushFrame(st, cl.Fn, args, c.ret, c.defer_)
	x.inlined[x.prog.funcKey(cl.Fn)] = true
	if !await {
		nf.wrapAwait = true
	}
	return true
}

func (x *Exec) coroAwait(st *State, fr *Frame, c *callCtx) bool {
	g := x.ghostDB(st)
	if g == nil {
		return true
	}
	g.advanceClock(st)
	arg := x.force(st, c.args[1])
	if iv, ok := arg.(VIface); ok {
		x.oblige(st, "nil-deref", "await of a nil awaitable", Not(iv.Nil), c.common.Pos(), nil)
		if iv.Nil.IsTrue() {
			st.dead = true
			return true
		}
		st.assume(Not(iv.Nil))
		if a, ok := iv.Val.(VAwait); ok {
			arg = a
		}
	}
	if a, ok := arg.(VAwait); ok {
		if a.Done {
			if len(a.Results) == 1 {
				return x.finish(st, fr, c, a.Results[0])
			}
			return x.finish(st, fr, c, VTuple{a.Results})
		}
		if a.Sym && len(a.Kinds) == 1 {
			for k := range a.Kinds {
				return x.awaitKind(st, fr, c, k)
			}
		}
	}
	// an awaitable of unknown origin
	g.relyStep("rely")
	return x.finish(st, fr, c, x.symbolicResult(st, c))
}

func (x *Exec) recordAwait(st *State, c *callCtx, res []Value) {
	var as []TV
	if c.ret != nil {
		if tup, ok := c.ret.Type().(*types.Tuple); ok {
			for i := 0; i < tup.Len(); i++ {
				as = append(as, TV{nil, tup.At(i).Type()})
			}
		}
	}
	if len(as) != len(res) {
		return
	}
	st.rec = append(append([]recordedCall(nil), st.rec...), recordedCall{Name: "await", Args: as, Results: res})
}

// awaitKind produces the result of awaiting an awaitable whose origin is known
// only by kind (it was read back from a slice filled in a loop).
func (x *Exec) awaitKind(st *State, fr *Frame, c *callCtx, kind string) bool {
	g := st.ghost.db
	g.relyStep("rely")
	complT := x.taioType("Completion")
	switch {
	case kind == "sender":
		fail := x.sym.Fresh("await.sender.fails", SBool)
		ts, fs := x.fork(st, fail, "awaited sender submission failed")
		// the outcome is recorded as a call named "await" (results: completion, error), so that a contract can
		// talk about what was awaited in this iteration without naming the local it was assigned to
		if ts != nil {
			res := []Value{VPtr{Nil: TTrue, Typ: types.NewPointer(complT)}, x.freshErr(ts, "aio.err", TFalse)}
			x.recordAwait(ts, c, res)
			x.completeCall(ts, c, VTuple{res})
		}
		if fs != nil {
			ok := x.sym.Fresh("await.sender.success", SBool)
			sc := x.newStruct(fs, x.taioType("SenderCompletion"), map[string]Value{"Success": VScalar{ok}})
			compl := x.newStruct(fs, complT, map[string]Value{"Kind": VScalar{IntLit(2)}, "Sender": sc})
			res := []Value{compl, VIface{Nil: TTrue, Typ: errType()}}
			x.recordAwait(fs, c, res)
			x.completeCall(fs, c, VTuple{res})
		}
		return true
	case strings.HasPrefix(kind, "spawn:"):
		key := strings.TrimPrefix(kind, "spawn:")
		fn := x.prog.lookupFunc(key)
		ct := x.prog.contracts.byKey[key]
		if fn == nil || ct == nil {
			break
		}
		// the child's contract: results are fresh, its ensures are assumed with unknown arguments
		x.callCounter++
		var args []Value
		for i, p := range fn.Params {
			args = append(args, x.symbolic(st, p.Type(), fmt.Sprintf("await!%d.%s", x.callCounter, p.Name())))
			_ = i
		}
		for _, fv := range fn.FreeVars {
			args = append(args, x.symbolic(st, fv.Type(), fmt.Sprintf("await!%d.%s", x.callCounter, fv.Name())))
		}
		sig := fn.Signature.Results()
		results := make([]Value, sig.Len())
		for i := range results {
			results[i] = x.symbolic(st, sig.At(i).Type(), fmt.Sprintf("await!%d.result%d", x.callCounter, i))
		}
		env := x.specEnvFor(st, fn, args, results, nil)
		x.extendEnv(env, st, fr)
		env.assume = true
		for _, cl := range ct.Ensures {
			if !hasProp(cl.Props, "await") && cl.Props != nil {
				continue
			}
			if strings.Contains(cl.Text, "linearizes") {
				continue
			}
			t, err := env.EvalBool(cl.Text)
			if err != nil {
				x.unsupported(st, err.Error())
				return true
			}
			st.assume(t)
		}
		x.usedContracts[key] = true
		return x.finish(st, fr, c, VTuple{results})
	}
	return x.finish(st, fr, c, x.symbolicResult(st, c))
}

func hasProp(ps []string, p string) bool {
	for _, q := range ps {
		if q == p {
			return true
		}
	}
	return false
}

// batchResults describes the results of a transaction whose command slice has
// symbolic length. When every command stored into the slice has the same
// keyed-read kind, each result is the read of some key in the transaction's
// pre-state; otherwise the results are unconstrained.
func (x *Exec) batchResults(st *State, cmds VSlice, arr *VAbsArr, rec *YieldRec) *VAbsArr {
	resT := x.taioType("Result")
	out := &VAbsArr{Len: cmds.Len, Elem: types.NewPointer(resT), Name: "results"}
	if len(arr.CmdKinds) != 1 {
		return out
	}
	var kind int64
	for k := range arr.CmdKinds {
		kind = k
	}
	cs := cmdSpecByKind(x.storeKindName(kind))
	if cs == nil || cs.Read == nil || cs.Read.Key == "" {
		return out
	}
	rd := cs.Read
	x.callCounter++
	name := fmt.Sprintf("batch%s!%d", cs.Kind, x.callCounter)
	keyF := x.sym.Func(name+".key", []Sort{SInt}, SStr)
	pre := rec.Pre
	out.ElemGen = func(s *State, idx Term) Value {
		sg := s.ghost.db
		table := sg.schema.Tables[rd.Table]
		recT := sg.recType(rd.RecType)
		_, payPT := structField(resT, cs.resField())
		payT := payPT.(*types.Pointer).Elem()
		_, recsT := structField(payT, "Records")
		k := App(SStr, keyF, idx)
		sg.noteKey(k)
		row := sg.rowAt(s, pre[rd.Table], k)
		present := rowPresent(rd.Table, row)
		// the record list has length 0 or 1 depending on presence; the one possible record is built eagerly
		recV, err := x.recordFromRowNoAssume(s, recT, table, row, rd.Cols)
		if err != nil {
			x.unsupported(s, err.Error())
			return VPtr{Nil: TTrue, Typ: types.NewPointer(resT)}
		}
		n := Ite(present, IntLit(1), IntLit(0))
		ra := &VAbsArr{Len: n, Elem: types.NewPointer(recT), Name: name + ".records", Cells: []AbsCell{{Idx: IntLit(0), Val: recV}}}
		obj := x.alloc(s, ra)
		pay := x.newStruct(s, payT, map[string]Value{"RowsReturned": VScalar{n}, "Records": VSlice{Nil: Not(present), Arr: obj, Len: n, Typ: recsT}})
		return x.newStruct(s, resT, map[string]Value{"Kind": VScalar{IntLit(kind)}, cs.resField(): pay})
	}
	return out
}

// leaseObligation: see xguar.C07.lease in spec/30_rely.smt2.
func (x *Exec) leaseObligation(st *State, c *callCtx, ce *cmdEval) {
	if _, ok := x.prog.spec.sigs["xguar.C07.lease"]; !ok {
		return
	}
	g := st.ghost.db
	a := ce.effArgs[0] // id pid state counter attempt ttl exp con mask cur
	id, newstate, mask, cur := a[0], a[2], a[8], a[9]
	if v, ok := isIntLit(mask); ok && v&4 == 0 {
		return
	}
	var alts []Term
	for _, y := range g.yields {
		if y.Kind != "store" || y.Pre["tasks"] == nil {
			continue
		}
		obs := g.rowAt(st, y.Pre["tasks"], id)
		alts = append(alts, App(SBool, "xguar.C07.lease", obs, y.Now, mask, cur, newstate))
	}
	goal := Or(alts...)
	if len(alts) == 0 {
		goal = App(SBool, "xguar.C07.lease", Term{"absent.tasks", rowSort("tasks")}, g.now, mask, cur, newstate)
	}
	x.oblige(st, "guarantee", "a claimed task is only taken from its holder after its lease or timeout was observed to have run out (xguar.C07.lease)", goal, c.common.Pos(), []string{"C07"})
}

var guaranteeProps = map[string][]string{"promises": {"C01", "C04", "C02"}, "callbacks": {"C05", "C02"}, "tasks": {"C07", "C02"}, "locks": {"C09", "C02"}, "schedules": {"C10", "C02"}}

// guaranteeObligations: the transaction just applied is a step of the
// guarantee relation (and keeps the row invariant) for every table it
// changed, at an arbitrary key; plus the cross-table step properties.
func (x *Exec) guaranteeObligations(st *State, c *callCtx, rec *YieldRec, idx int) {
	g := st.ghost.db
	for _, tn := range g.schema.Order {
		pre, post := rec.Pre[tn], rec.Post[tn]
		if pre == nil || pre == post {
			continue
		}
		if _, ok := x.prog.spec.sigs["rely."+tn]; !ok {
			continue
		}
		k0 := x.sym.Named(fmt.Sprintf("g.k0.%s.%d", tn, idx), SStr)
		a := g.rowAt(st, pre, k0)
		b := g.rowAt(st, post, k0)
		// one obligation per named part of the guarantee
		var parts []string
		for n := range x.prog.spec.sigs {
			if strings.HasPrefix(n, "rely."+tn+".") {
				parts = append(parts, n)
			}
		}
		sort.Strings(parts)
		if len(parts) == 0 {
			parts = []string{"rely." + tn}
		}
		for _, pn := range parts {
			x.oblige(st, "guarantee", fmt.Sprintf("transaction is a step of the guarantee %s at every key", pn), App(SBool, pn, a, b), c.common.Pos(), guaranteeProps[tn])
		}
	}
	changed := func(tn string) bool { return rec.Pre[tn] != rec.Post[tn] }
	// C05: registrations are converted to tasks atomically with the completion of their promise
	if _, ok := x.prog.spec.sigs["xguar.C05"]; ok && (changed("promises") || changed("callbacks") || changed("tasks")) {
		k := x.sym.Named(fmt.Sprintf("x.k0.C05.%d", idx), SStr)
		cb0 := g.rowAt(st, rec.Pre["callbacks"], k)
		cb1 := g.rowAt(st, rec.Post["callbacks"], k)
		pk0 := App(SStr, "val", colSel("callbacks", "promise_id", cb0, SOptS))
		pk1 := App(SStr, "val", colSel("callbacks", "promise_id", cb1, SOptS))
		goal := App(SBool, "xguar.C05", cb0, cb1, g.rowAt(st, rec.Pre["promises"], pk0), g.rowAt(st, rec.Post["promises"], pk0),
			g.rowAt(st, rec.Post["promises"], pk1), g.rowAt(st, rec.Pre["tasks"], k), g.rowAt(st, rec.Post["tasks"], k))
		x.oblige(st, "guarantee", "registrations of a promise that leaves pending become tasks and are removed in the same transaction (xguar.C05)", goal, c.common.Pos(), []string{"C05", "C06"})
	}
	if _, ok := x.prog.spec.sigs["xguar.C08"]; ok && (changed("promises") || changed("tasks")) {
		k := x.sym.Named(fmt.Sprintf("x.k0.C08.%d", idx), SStr)
		t0 := g.rowAt(st, rec.Pre["tasks"], k)
		t1 := g.rowAt(st, rec.Post["tasks"], k)
		pk := App(SStr, "val", colSel("tasks", "root_promise_id", t0, SOptS))
		goal := App(SBool, "xguar.C08", t0, t1, g.rowAt(st, rec.Pre["promises"], pk), g.rowAt(st, rec.Post["promises"], pk))
		x.oblige(st, "guarantee", "when a promise leaves pending all of its active tasks are completed in the same transaction (xguar.C08)", goal, c.common.Pos(), []string{"C08", "C06"})
		if _, ok := x.prog.spec.sigs["xguar.C08.born"]; ok {
			pk1 := App(SStr, "val", colSel("tasks", "root_promise_id", t1, SOptS))
			goal3 := App(SBool, "xguar.C08.born", t0, t1, g.rowAt(st, rec.Pre["promises"], pk1), g.rowAt(st, rec.Post["promises"], pk1))
			x.oblige(st, "guarantee", "an invocation task is created only in the transaction that creates its promise (xguar.C08.born)", goal3, c.common.Pos(), []string{"C08", "C06"})
		}
		if _, ok := x.prog.spec.sigs["xguar.C08.unclaimed"]; ok {
			goal2 := App(SBool, "xguar.C08.unclaimed", t0, t1, g.rowAt(st, rec.Pre["promises"], pk), g.rowAt(st, rec.Post["promises"], pk))
			x.oblige(st, "guarantee", "an unclaimed task is completed only together with its root promise or as a dispatched notification (xguar.C08.unclaimed)", goal2, c.common.Pos(), []string{"C05", "C08"})
		}
	}
}
