package main

func cmdCheck(args []string) int { return 0 }
