package main

// govc check <property> <tier>: regenerates every obligation of the property
// from /repo's current working tree, the contract files and /verif/spec,
// discharges them, writes /verif/evidence/<id>.json and prints VIOLATION /
// KNOWN-FINDING lines.

import (
	"encoding/json"
	"flag"
	"fmt"
	"os"
	"path/filepath"
	"sort"
	"strconv"
	"strings"
	"sync"
	"time"
)

type knownFinding struct {
	Max   int
	Prop  string
	Match string   // substring matched against "<func> :: <obligation name> @ <file>"
	Paths []string // every one must occur in the failing path's trace (the specific history that fails)
	Text  string
}

func loadKnownFindings(path string) []knownFinding {
	data, err := os.ReadFile(path)
	if err != nil {
		return nil
	}
	var out []knownFinding
	for _, line := range strings.Split(string(data), "\n") {
		line = strings.TrimSpace(line)
		if !strings.HasPrefix(line, "finding:") {
			continue
		}
		rest := strings.TrimSpace(strings.TrimPrefix(line, "finding:"))
		kf := knownFinding{Text: rest}
		for _, f := range splitFields(rest) {
			if strings.HasPrefix(f, "property=") {
				kf.Prop = strings.TrimPrefix(f, "property=")
			}
			if strings.HasPrefix(f, "obligation=") {
				kf.Match = strings.Trim(strings.TrimPrefix(f, "obligation="), `"`)
			}
			if strings.HasPrefix(f, "path=") {
				kf.Paths = append(kf.Paths, strings.Trim(strings.TrimPrefix(f, "path="), `"`))
			}
			if strings.HasPrefix(f, "max=") {
				kf.Max, _ = strconv.Atoi(strings.TrimPrefix(f, "max="))
			}
		}
		out = append(out, kf)
	}
	return out
}

// splitFields splits on spaces but keeps "quoted strings" together.
func splitFields(s string) []string {
	var out []string
	var cur strings.Builder
	inq := false
	for _, r := range s {
		switch {
		case r == '"':
			inq = !inq
			cur.WriteRune(r)
		case r == ' ' && !inq:
			if cur.Len() > 0 {
				out = append(out, cur.String())
				cur.Reset()
			}
		default:
			cur.WriteRune(r)
		}
	}
	if cur.Len() > 0 {
		out = append(out, cur.String())
	}
	return out
}

type checkUnit struct {
	Key  string
	Opts *VerifyOpts
}

type Evidence struct {
	PropertyID  string                 `json:"property_id"`
	Tier        string                 `json:"tier"`
	Seed        int                    `json:"seed"`
	Level       string                 `json:"level"`
	Coverage    map[string]interface{} `json:"coverage"`
	Assumptions []string               `json:"assumptions"`
	WallS       float64                `json:"wall_s"`
	Violations  int                    `json:"violations"`
}

func unitsFor(prog *Program, prop string) []checkUnit {
	var units []checkUnit
	for _, key := range sortedKeys(prog.contracts.byKey) {
		ct := prog.contracts.byKey[key]
		if ct.Directives["iface"] != nil || ct.Directives["assumed"] != nil {
			continue // assumed contract (interface method, or a function outside the subset): used at call sites, nothing is verified
		}
		serves := false
		for _, p := range ct.allProps() {
			if p == prop {
				serves = true
			}
		}
		// "serves <props>": the unit also runs for these properties, which are charged only the
		// obligations tagged with them explicitly (guarantee steps, tagged clauses)
		for _, d := range []string{"nopanic", "serves", "overflow"} {
			for _, p := range ct.Directives[d] {
				for _, q := range strings.Fields(p) {
					if q == prop {
						serves = true
					}
				}
			}
		}
		// a coroutine may submit a transaction on any table: every coroutine unit is run for every property
		// a guarantee obligation can be charged to (only the obligations tagged with the property count)
		if !serves {
			for _, d := range ct.Directives["ghostdb"] {
				if strings.TrimSpace(d) == "coroutine" {
					switch prop {
					case "C01", "C02", "C04", "C05", "C06", "C07", "C08", "C09", "C10":
						serves = true
					}
				}
			}
		}
		if !serves {
			continue
		}
		opts := &VerifyOpts{Props: []string{prop}}
		// implicit safety obligations (nil dereference, bounds, asserts, panics)
		// are charged to the properties named by the nopanic directive
		for _, p := range ct.Directives["nopanic"] {
			opts.PanicProps = append(opts.PanicProps, strings.Fields(p)...)
		}
		for _, p := range ct.Directives["overflow"] {
			opts.Overflow = append(opts.Overflow, strings.Fields(p)...)
		}
		if ct.Directives["ghostdb"] != nil {
			opts.SQLProps = ct.Props
			opts.TxProps = ct.Props
		}
		if mp := ct.Directives["maxpaths"]; mp != nil {
			opts.MaxPaths, _ = strconv.Atoi(strings.TrimSpace(mp[0]))
		}
		units = append(units, checkUnit{Key: key, Opts: opts})
	}
	return units
}

func cmdCheck(args []string) int {
	fs := flag.NewFlagSet("check", flag.ExitOnError)
	repo := fs.String("repo", "/repo", "repository")
	verif := fs.String("verif", "/verif", "verif directory")
	_ = fs.Parse(args)
	if fs.NArg() < 1 {
		fmt.Fprintln(os.Stderr, "usage: govc check <property> [quick|thorough]")
		return 2
	}
	prop := fs.Arg(0)
	tier := "quick"
	if fs.NArg() > 1 {
		tier = fs.Arg(1)
	}
	if t := os.Getenv("VERIF_TIER"); t != "" && fs.NArg() < 2 {
		tier = t
	}
	seed := 0
	if s := os.Getenv("VERIF_SEED"); s != "" {
		seed, _ = strconv.Atoi(s)
	}
	if seed < 0 {
		seed = -seed
	}
	solverOrderSeed = seed % 3
	timeout := 20
	if tier == "thorough" {
		timeout = 90
	}
	start := time.Now()
	evPath := filepath.Join(*verif, "evidence", prop+".json")
	if d := os.Getenv("GOVC_EVIDENCE_DIR"); d != "" {
		// runs against deliberately changed trees (tools/run_seeds.sh) keep the committed evidence untouched
		evPath = filepath.Join(d, prop+".json")
	}
	_ = os.MkdirAll(filepath.Dir(evPath), 0o755)
	_ = os.Remove(evPath)

	fail := func(msg string) int {
		// machinery failure: report as a violation of an engine obligation, never a silent pass
		rp := filepath.Join(*verif, "replays", prop, "engine-error.txt")
		_ = os.MkdirAll(filepath.Dir(rp), 0o755)
		_ = os.WriteFile(rp, []byte("obligation: the verification conditions of "+prop+" can be generated from the current tree\nstatus: failed\n\n"+msg+"\n"), 0o644)
		fmt.Printf("VIOLATION property=%s replay=%s no-failing-input-found\n", prop, rp)
		ev := Evidence{PropertyID: prop, Tier: tier, Seed: seed, Level: "proof", WallS: time.Since(start).Seconds(), Violations: 1,
			Coverage: map[string]interface{}{"obligations": 1, "discharged": 0, "checker_cmd": "govc check " + prop + " " + tier,
				"trusted_base": []string{}, "explanation": "verification conditions could not be generated: " + msg}}
		writeJSON(evPath, ev)
		return 1
	}

	replayRepo = *repo
	prog, err := loadAll(*repo, filepath.Join(*verif, "spec"), []string{"./..."})
	if err != nil {
		// the tree cannot be brought into the verifier at all (it does not type-check, or the schema / a
		// contract file left the supported subset): nothing is decided about the property. Reported loudly,
		// evidence says so, exit code 0 (see DESIGN.md section 8: undecided is not violated).
		fmt.Printf("UNDECIDED property=%s function=- obligation=%q\n", prop, "the verification conditions can be generated from the current tree: "+err.Error())
		ev := Evidence{PropertyID: prop, Tier: tier, Seed: seed, Level: "proof", WallS: time.Since(start).Seconds(), Violations: 0,
			Coverage: map[string]interface{}{"obligations": 1, "discharged": 0, "checker_cmd": "govc check " + prop + " " + tier,
				"trusted_base": []string{}, "undecided": []string{err.Error()}, "explanation": "verification conditions could not be generated: " + err.Error()}}
		writeJSON(evPath, ev)
		fmt.Printf("property %s: 1 obligations, 0 discharged, 0 violations, 1 undecided, 0 known findings, 0 functions (0 with unsupported paths), %.1fs\n", prop, time.Since(start).Seconds())
		return 0
	}
	units := unitsFor(prog, prop)
	extra := extraObligations(prog, prop, tier)
	if len(units) == 0 && len(extra) == 0 {
		return fail("no contract serves property " + prop)
	}
	outDir := filepath.Join(*verif, "out", prop)
	_ = os.RemoveAll(outDir)
	known := loadKnownFindings(filepath.Join(*verif, "known_findings.txt"))
	if os.Getenv("GOVC_NO_KNOWN") != "" {
		known = nil // debugging aid: show every failed obligation with all of its paths
	}

	type unitRes struct {
		rep *FuncReport
		x   *Exec
		err error
	}
	results := make([]unitRes, len(units))
	var wg sync.WaitGroup
	sem := make(chan struct{}, 8)
	for i, u := range units {
		wg.Add(1)
		sem <- struct{}{}
		go func(i int, u checkUnit) {
			defer wg.Done()
			defer func() { <-sem }()
			x, rep, err := prog.Explore(u.Key, u.Opts)
			if err == nil {
				x.Discharge(rep, outDir, timeout, 4)
			}
			results[i] = unitRes{rep, x, err}
		}(i, u)
	}
	wg.Wait()
	// stand-alone lemma queries
	for _, q := range extra {
		if q.res != nil {
			continue // decided structurally (SQL shape)
		}
		r := q.q.Solve(filepath.Join(outDir, "lemmas"), timeout)
		q.res = &r
	}

	total, discharged := 0, 0
	byBackend := map[string]int{}
	solverTime := 0.0
	slowestS, slowestName := 0.0, ""
	var functions, notVerified, samples, unreached []string
	assumptions := map[string]bool{}
	violations := 0
	knownHits := map[string]bool{}
	knownNames := map[string]map[string]bool{}
	dupViol := map[string]string{}
	dupCount := map[string]int{}
	knownObl := 0
	replayDir := filepath.Join(*verif, "replays", prop)
	_ = os.RemoveAll(replayDir)
	// An obligation that cannot even be stated against the current source (its contract names a local, a
	// loop or a function that is not there any more, or a statement has left the SQL subset) is UNDECIDED,
	// not violated: there is no solver verdict on it. It is reported, counted as not discharged, and does
	// not change the exit code (a renamed local is not a broken property; neither is it a proof).
	undecided := []string{}
	undecidedSeen := map[string]bool{}
	noteUndecided := func(fn, what string) {
		k := fn + "|" + what
		if undecidedSeen[k] {
			return
		}
		undecidedSeen[k] = true
		undecided = append(undecided, shortFunc(fn)+": "+what)
		fmt.Printf("UNDECIDED property=%s function=%s obligation=%q\n", prop, shortFunc(fn), what)
	}
	var curAbstracted []string // unmodelled library calls of the unit being reported (arbitrary results)
	isUndecidable := func(kind, name string) bool {
		switch kind {
		case "contract":
			return true
		case "loop-exit":
			return strings.HasSuffix(name, " exists")
		case "sql":
			return strings.Contains(name, "outside the verified SQL subset")
		}
		return false
	}
	report := func(fn, name, kind, pos, status, file, raw, model string, trace []string) {
		if isUndecidable(kind, name) {
			noteUndecided(fn, name)
			return
		}
		id := fn + " :: " + name + " @ " + pos
		tr := " " + strings.Join(trace, " ") + " "
		for _, kf := range known {
			onPath := true
			for _, p := range kf.Paths {
				if !strings.Contains(tr, " "+p+" ") {
					onPath = false
				}
			}
			if kf.Prop == prop && kf.Match != "" && strings.Contains(id, kf.Match) && onPath {
				// "max=n": the finding covers at most n distinct obligations (a site identified by function and
				// kind of obligation rather than by the text of an expression, so that a refactoring of the
				// expression still matches while a second failing site in the same function is reported)
				if kf.Max > 0 {
					if knownNames[kf.Text] == nil {
						knownNames[kf.Text] = map[string]bool{}
					}
					if !knownNames[kf.Text][name] && len(knownNames[kf.Text]) >= kf.Max {
						continue
					}
					knownNames[kf.Text][name] = true
				}
				knownObl++
				if !knownHits[kf.Text] {
					knownHits[kf.Text] = true
					fmt.Printf("KNOWN-FINDING: property=%s %s\n", prop, strings.TrimSpace(strings.Replace(kf.Text, "property="+prop, "", 1)))
				}
				return
			}
		}
		// one VIOLATION per failed obligation (function + clause); further paths are counted
		dk := fn + "|" + kind + "|" + name
		if prev, dup := dupViol[dk]; dup {
			dupCount[dk]++
			if f, err := os.OpenFile(prev, os.O_APPEND|os.O_WRONLY, 0o644); err == nil {
				fmt.Fprintf(f, "\nalso fails on path: %s (query %s, solver %s)\n", strings.Join(trace, " "), file, status)
				f.Close()
			}
			return
		}
		violations++
		_ = os.MkdirAll(replayDir, 0o755)
		rp := filepath.Join(replayDir, fmt.Sprintf("%03d-%s.txt", violations, sanitizeFile(shortFunc(fn)+"."+kind)))
		dupViol[dk] = rp
		var b strings.Builder
		fmt.Fprintf(&b, "property: %s\nfailed obligation: %s\nkind: %s\nfunction: %s\nat: %s\nsolver status: %s\nquery: %s\npath: %s\n", prop, name, kind, fn, pos, status, file, strings.Join(trace, " "))
		suffix := " no-failing-input-found"
		if len(curAbstracted) > 0 {
			fmt.Fprintf(&b, "\ncaveat: this function calls library functions the engine has no model of; their results were taken to be\narbitrary values (no effect on the caller's state). The refutation stands if the obligation depends on such a\nresult being a particular value that the library does not guarantee; it is spurious if the library function does\nguarantee it. Calls concerned:\n  %s\n", strings.Join(curAbstracted, "\n  "))
		}
		if status == "sat" {
			fmt.Fprintf(&b, "\nThe solver found an assignment of the function's inputs / database rows under which the\nobligation is false (model below; symbols are access paths of the inputs, row.<table> are database rows).\n")
			rr := tryReplay(prog, prop, fn, name, kind, model, *verif)
			if rr.Reproduced {
				suffix = ""
				fmt.Fprintf(&b, "\nreplay on the real code: REPRODUCED\n%s\n", rr.Text)
			} else {
				fmt.Fprintf(&b, "\nreplay on the real code: %s\n", rr.Text)
			}
			fmt.Fprintf(&b, "\nmodel:\n%s\n", model)
		} else {
			fmt.Fprintf(&b, "\nThe obligation is discharged on the unchanged tree and is not discharged now; no model is available.\nsolver output:\n%s\n", raw)
		}
		_ = os.WriteFile(rp, []byte(b.String()), 0o644)
		fmt.Printf("VIOLATION property=%s replay=%s%s\n", prop, rp, suffix)
	}
	for i, r := range results {
		if r.err != nil {
			total++
			noteUndecided(units[i].Key, "the contract of this function can be checked against the current source: "+r.err.Error())
			continue
		}
		rep := r.rep
		functions = append(functions, rep.Key)
		if len(rep.Unsupported) > 0 {
			notVerified = append(notVerified, rep.Key+": "+strings.Join(rep.Unsupported, "; "))
			total++
			noteUndecided(rep.Key, "every path of the function stays inside the verified subset: "+strings.Join(rep.Unsupported, "; "))
		}
		for _, u := range rep.Unreached {
			unreached = append(unreached, shortFunc(rep.Key)+": "+u)
		}
		for _, n := range rep.Intrinsics {
			if d, ok := intrinsicDocs[n]; ok {
				assumptions["external "+n+": "+d] = true
			}
		}
		curAbstracted = nil
		for _, n := range rep.Notes {
			assumptions["engine note: "+n] = true
			if strings.HasPrefix(n, "ABSTRACTED: external function ") {
				curAbstracted = append(curAbstracted, strings.TrimPrefix(n, "ABSTRACTED: external function "))
			}
		}
		for _, k := range rep.UsedContr {
			if cc := prog.contracts.byKey[k]; cc != nil && cc.Directives["assumed"] != nil {
				assumptions["ASSUMED contract of a function outside the verified subset (its body is not verified against it): "+k] = true
			} else if cc != nil && cc.Directives["iface"] != nil {
				assumptions["ASSUMED contract of an interface method (no body is verified against it): "+k] = true
			} else {
				assumptions["callee contract used in place of the body (the callee is its own unit of the properties named in its block): "+k] = true
			}
		}
		for _, n := range rep.Inlined {
			assumptions["inlined helper (body verified in context, no separate contract): "+n] = true
		}
		for _, o := range rep.Obligations {
			total++
			if o.Result == nil {
				continue
			}
			solverTime += o.Result.Seconds
			if o.Result.Seconds > slowestS {
				slowestS = o.Result.Seconds
				slowestName = shortFunc(o.Func) + ": " + o.Name
			}
			if o.Result.Status == "unsat" {
				discharged++
				byBackend[o.Result.Solver]++
				if len(samples) < 6 {
					samples = append(samples, fmt.Sprintf("%s: %s [%s] @ %s -> unsat (%s, %.2fs)", shortFunc(o.Func), o.Name, o.Kind, o.Pos, o.Result.Solver, o.Result.Seconds))
				}
				continue
			}
			report(o.Func, o.Name, o.Kind, o.Pos, o.Result.Status, o.Result.File, o.Result.Raw, o.Result.Model, o.Trace)
		}
		if rep.Returns == 0 && len(rep.Unsupported) == 0 {
			total++
			// paths that end at a clause which cannot be evaluated are not a vacuous contract: undecided
			undec := false
			for _, o := range rep.Obligations {
				if o.Result != nil && o.Result.Status != "unsat" && isUndecidable(o.Kind, o.Name) {
					undec = true
				}
			}
			if undec {
				noteUndecided(rep.Key, "some path reaches a return (every path ends at a contract clause that cannot be evaluated against the current source)")
			} else {
				report(rep.Key, "some path reaches a return (anti-vacuity)", "vacuity", "-", "unknown", "", "no path of the function reached a return under its preconditions", "", nil)
			}
		}
	}
	for _, q := range extra {
		total++
		solverTime += q.res.Seconds
		if q.res.Status == "unsat" {
			discharged++
			byBackend[q.res.Solver]++
			if len(samples) < 8 {
				samples = append(samples, fmt.Sprintf("lemma %s -> unsat (%s, %.2fs)", q.name, q.res.Solver, q.res.Seconds))
			}
			continue
		}
		report("lemma", q.name, "lemma", q.where, q.res.Status, q.res.File, q.res.Raw, q.res.Model, nil)
	}
	// thorough tier: the replay tests of this property's findings are run against the current tree.
	// A defect recorded as fixed must not reproduce any more (if it does, it has returned: a violation
	// with a failing input); a known finding that no longer reproduces is reported as a note.
	replayRuns := []string{}
	if tier == "thorough" {
		for _, rr := range replayRegression(*verif, prop) {
			replayRuns = append(replayRuns, rr.line)
			total++
			if rr.fixed && rr.reproduced {
				violations++
				_ = os.MkdirAll(replayDir, 0o755)
				rp := filepath.Join(replayDir, fmt.Sprintf("%03d-replay-%s.txt", violations, sanitizeFile(rr.test)))
				_ = os.WriteFile(rp, []byte("property: "+prop+"\nfailed obligation: the defect recorded as fixed does not reproduce ("+rr.entry+")\nreplay on the real code: REPRODUCED\n"+rr.output+"\n"), 0o644)
				fmt.Printf("VIOLATION property=%s replay=%s\n", prop, rp)
				continue
			}
			discharged++
			byBackend["replay-test"]++
			if !rr.fixed && !rr.reproduced {
				fmt.Printf("NOTE: property=%s known finding no longer reproduces on this tree: %s\n", prop, rr.test)
			}
		}
	}
	sort.Strings(functions)
	var asm []string
	for a := range assumptions {
		asm = append(asm, a)
	}
	sort.Strings(asm)
	asm = append(asm, standingAssumptions(prop)...)
	if len(samples) == 0 {
		samples = append(samples, "(no obligation discharged)")
	}
	ev := Evidence{PropertyID: prop, Tier: tier, Seed: seed, Level: "proof", WallS: time.Since(start).Seconds(), Violations: violations,
		Assumptions: asm,
		Coverage: map[string]interface{}{
			"obligations":               total - knownObl,
			"discharged":                discharged,
			"known_finding_obligations": knownObl,
			"checker_cmd":               "/verif/bin/govc check " + prop + " " + tier + "  (each obligation: one SMT-LIB file under /verif/out/" + prop + "/, raced on z3 4.8.12, z3 5.1.0, cvc5 1.0)",
			"trusted_base":              trustedBase(prop),
			"functions_under_contract":  functions,
			"functions_not_verified":    notVerified,
			"by_backend":                byBackend,
			"solver_time_s":             solverTime,
			"known_findings_reported":   len(knownHits),
			"samples":                   samples,
			"contract_files":            prog.contracts.files,
			"spec_files":                prog.spec.files,
			"replay_regression":         replayRuns,
			"slowest_obligation_s":      slowestS,
			"slowest_obligation":        slowestName,
			"solver_timeout_s":          timeout,
			"undecided":                 undecided,
			"blocks_never_reached":      unreached,
		}}
	writeJSON(evPath, ev)
	fmt.Printf("property %s: %d obligations, %d discharged, %d violations, %d undecided, %d known findings, %d functions (%d with unsupported paths), %.1fs\n",
		prop, total, discharged, violations, len(undecided), len(knownHits), len(functions), len(notVerified), time.Since(start).Seconds())
	if violations > 0 {
		return 1
	}
	return 0
}

func writeJSON(path string, v interface{}) {
	data, _ := json.MarshalIndent(v, "", " ")
	_ = os.WriteFile(path, data, 0o644)
}

type lemmaQuery struct {
	name  string
	where string
	q     *Query
	res   *SolveResult
}

func trustedBase(prop string) []string {
	return []string{
		"govc itself (symbolic execution of go/ssa, SQL front end, contract evaluation) and the SMT solvers",
		"go/ssa (x/tools v0.29.0) faithfully represents the compiled program; int is 64 bit",
		"SQLite / Postgres execute each SQL transaction atomically, isolated and durably; the statement subset has the pointwise semantics of sqlsem.go",
		"gocoro runs one coroutine at a time and only switches at its primitives; c.Time() is constant between primitives and non-decreasing (ticks are called with non-decreasing time)",
		"induction over the sequence of committed transactions (the step obligations are proved here, the induction principle is not mechanised)",
		"objects reachable from different parameters / access paths of a verified function do not alias",
		"a call replaced by its callee's contract changes nothing in the caller's heap beyond what the contract's ensures state (no assigns clauses are checked)",
	}
}

func standingAssumptions(prop string) []string {
	return []string{
		"machine arithmetic: SMT Int with explicit 64-bit wrap-around on + and - (not mathematical integers); SQL integer + is mathematical",
		"strings and byte slices are uninterpreted values with equality; json round trip for string maps and flat structs is assumed (ground instances)",
	}
}
