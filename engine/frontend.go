package main

// Front-end layer: gin and grpc-status intrinsics, call recording, and the
// contract vocabulary used by the HTTP / gRPC handler contracts.

import (
	"fmt"
	"go/types"
	"reflect"
	"strconv"
	"strings"

	"golang.org/x/tools/go/ssa"
)

type recordedCall struct {
	Name    string
	Args    []TV
	Results []Value
}

// GrpcStatus is the dynamic value of an error made by status.Error.
type GrpcStatus struct {
	Code Term
	Msg  Term
}

const ginCtx = "(*github.com/gin-gonic/gin.Context)"

func init() {
	reg("google.golang.org/grpc/status.Error", "status.Error(code, msg): a non-nil error carrying code (nil iff code is OK)", func(x *Exec, st *State, fr *Frame, c *callCtx) bool {
		code := x.scalar(st, c.args[0])
		msg := x.scalar(st, c.args[1])
		e := VIface{Nil: Eq(code, IntLit(0)), Val: &GrpcStatus{Code: code, Msg: msg}, Id: x.sym.Fresh("grpcstatus.id", SErr), Typ: errType()}
		return x.finish(st, fr, c, e)
	})
	reg("google.golang.org/grpc/status.Errorf", "status.Errorf: as status.Error", func(x *Exec, st *State, fr *Frame, c *callCtx) bool {
		code := x.scalar(st, c.args[0])
		e := VIface{Nil: Eq(code, IntLit(0)), Val: &GrpcStatus{Code: code}, Id: x.sym.Fresh("grpcstatus.id", SErr), Typ: errType()}
		return x.finish(st, fr, c, e)
	})
	for _, m := range []string{"ShouldBindJSON", "ShouldBindHeader", "ShouldBindQuery", "ShouldBindUri", "ShouldBind"} {
		m := m
		reg(ginCtx+"."+m, "gin binding: fails, or fills the target with client data satisfying exactly the constraints of its binding tags", func(x *Exec, st *State, fr *Frame, c *callCtx) bool {
			return x.ginBind(st, fr, c, m)
		})
	}
	reg(ginCtx+".Param", "gin path parameter: an arbitrary client string; a '*name' wildcard parameter starts with '/'", func(x *Exec, st *State, fr *Frame, c *callCtx) bool {
		name := x.scalar(st, c.args[1])
		lit, _ := x.sym.LitValue(name.S)
		v := x.sym.Named("gin.param."+lit, SStr)
		// wildcard routes (/*id) always deliver a leading slash
		st.assume(And(Ge(App(SInt, "slen", v), IntLit(1)), Eq(App(SInt, "str.at", v, IntLit(0)), IntLit(47))))
		return x.finish(st, fr, c, VScalar{v})
	})
	reg(ginCtx+".QueryMap", "gin query map: arbitrary client data", func(x *Exec, st *State, fr *Frame, c *callCtx) bool {
		v := x.symbolic(st, c.ret.Type(), "gin.querymap")
		st.rec = append(append([]recordedCall(nil), st.rec...), recordedCall{Name: "querymap", Args: []TV{{nil, c.ret.Type()}}, Results: []Value{v}})
		return x.finish(st, fr, c, v)
	})
	reg(ginCtx+".Query", "gin query value: arbitrary client string", func(x *Exec, st *State, fr *Frame, c *callCtx) bool {
		return x.finish(st, fr, c, x.symbolic(st, c.ret.Type(), "gin.query"))
	})
	reg(ginCtx+".GetHeader", "gin header value: arbitrary client string", func(x *Exec, st *State, fr *Frame, c *callCtx) bool {
		return x.finish(st, fr, c, x.symbolic(st, c.ret.Type(), "gin.header"))
	})
	reg(ginCtx+".JSON", "gin JSON reply: records (code, body); rendering the body is not modelled", func(x *Exec, st *State, fr *Frame, c *callCtx) bool {
		x.recorded = append(x.recordedFor(st), recordedCall{Name: "json", Args: []TV{{c.args[1], types.Typ[types.Int]}, {c.args[2], nil}}})
		st.rec = x.recorded
		return x.finish(st, fr, c, nil)
	})
	reg(ginCtx+".Status", "gin status-only reply", func(x *Exec, st *State, fr *Frame, c *callCtx) bool {
		x.recorded = append(x.recordedFor(st), recordedCall{Name: "json", Args: []TV{{c.args[1], types.Typ[types.Int]}, {VOpaque{Name: "nobody"}, nil}}})
		st.rec = x.recorded
		return x.finish(st, fr, c, nil)
	})
	reg(ginCtx+".AbortWithStatus", "gin abort", noop)
	reg(ginCtx+".Next", "gin next", noop)
}

func (x *Exec) recordedFor(st *State) []recordedCall {
	return append([]recordedCall(nil), st.rec...)
}

// ginBind models ShouldBind*: either an error, or the target struct holds
// arbitrary values constrained by the binding tags.
func (x *Exec) ginBind(st *State, fr *Frame, c *callCtx, method string) bool {
	iv, ok := x.force(st, c.args[1]).(VIface)
	if !ok || iv.Dyn == nil {
		x.unsupported(st, "gin binding into an opaque target")
		return true
	}
	p, ok := x.force(st, iv.Val).(VPtr)
	if !ok || p.Loc == nil {
		x.unsupported(st, "gin binding into a non pointer")
		return true
	}
	elem := iv.Dyn.Underlying().(*types.Pointer).Elem()
	fail := x.sym.Fresh("gin.bind.fails", SBool)
	ts, fs := x.fork(st, fail, "request does not bind")
	if ts != nil {
		x.completeCall(ts, c, x.freshErr(ts, "gin.bind.err", TFalse))
	}
	if fs != nil {
		x.callCounter++
		name := fmt.Sprintf("%s!%d", strings.TrimPrefix(method, "ShouldBind"), x.callCounter)
		v := x.symbolic(fs, elem, name)
		x.store(fs, p.Loc, v)
		x.bindingFacts(fs, p.Loc, elem, method)
		x.completeCall(fs, c, VIface{Nil: TTrue, Typ: errType()})
	}
	return true
}

// bindingFacts assumes what the validator enforces for a successfully bound value.
func (x *Exec) bindingFacts(st *State, loc *Loc, t types.Type, method string) {
	stt, ok := t.Underlying().(*types.Struct)
	if !ok {
		return
	}
	for i := 0; i < stt.NumFields(); i++ {
		tag := reflect.StructTag(stt.Tag(i)).Get("binding")
		floc := loc.Sub(i)
		ft := stt.Field(i).Type()
		if tag != "" {
			x.applyBindingTag(st, floc, ft, tag)
		}
		// promise.State is decoded by its UnmarshalJSON, which only yields the five named states
		if strings.HasSuffix(types.TypeString(ft, nil), "pkg/promise.State") {
			if sv, ok := x.force(st, x.load(st, floc)).(VScalar); ok {
				st.assume(Or(Eq(sv.T, IntLit(0)), Eq(sv.T, IntLit(1)), Eq(sv.T, IntLit(2)), Eq(sv.T, IntLit(4)), Eq(sv.T, IntLit(8)), Eq(sv.T, IntLit(16))))
			}
		}
		// nested structs (dive): gin validates nested struct fields as well
		if _, isStruct := ft.Underlying().(*types.Struct); isStruct {
			x.bindingFacts(st, floc, ft, method)
		}
		if pt, isPtr := ft.Underlying().(*types.Pointer); isPtr {
			if _, isStruct := pt.Elem().Underlying().(*types.Struct); isStruct && tag != "" && strings.Contains(tag, "required") {
				if pv, ok := x.force(st, x.load(st, floc)).(VPtr); ok && pv.Loc != nil {
					x.bindingFacts(st, pv.Loc, pt.Elem(), method)
				}
			}
		}
	}
}

func (x *Exec) applyBindingTag(st *State, loc *Loc, t types.Type, tag string) {
	v := x.force(st, x.load(st, loc))
	omitempty := false
	for _, part := range strings.Split(tag, ",") {
		part = strings.TrimSpace(part)
		switch {
		case part == "omitempty":
			omitempty = true
		case part == "required":
			switch vv := v.(type) {
			case VScalar:
				switch vv.T.Sort {
				case SStr:
					st.assume(Not(Eq(vv.T, x.sym.StrLit(""))))
				case SInt:
					st.assume(Not(Eq(vv.T, IntLit(0))))
				}
			case VPtr:
				st.assume(Not(vv.Nil))
			case VBytes:
				st.assume(Not(vv.Nil))
			case VSlice:
				st.assume(Not(vv.Nil))
			case VMap:
				st.assume(Not(vv.Nil))
			}
		case strings.HasPrefix(part, "min="), strings.HasPrefix(part, "gte="), strings.HasPrefix(part, "max="), strings.HasPrefix(part, "lte="), strings.HasPrefix(part, "gt="), strings.HasPrefix(part, "lt="):
			kv := strings.SplitN(part, "=", 2)
			n, err := strconv.ParseInt(kv[1], 10, 64)
			if err != nil {
				continue
			}
			var t0 Term
			var guard Term = TTrue
			switch vv := v.(type) {
			case VScalar:
				t0 = vv.T
				if vv.T.Sort == SStr {
					t0 = App(SInt, "slen", vv.T)
				}
			case VPtr:
				if vv.Loc == nil {
					continue
				}
				inner, ok := x.force(st, x.load(st, vv.Loc)).(VScalar)
				if !ok {
					continue
				}
				t0 = inner.T
				if inner.T.Sort == SStr {
					t0 = App(SInt, "slen", inner.T)
				}
				guard = Not(vv.Nil) // omitempty: a nil pointer skips validation
			default:
				continue
			}
			_ = omitempty
			var fact Term
			switch kv[0] {
			case "min", "gte":
				fact = Ge(t0, IntLit(n))
			case "max", "lte":
				fact = Le(t0, IntLit(n))
			case "gt":
				fact = Gt(t0, IntLit(n))
			case "lt":
				fact = Lt(t0, IntLit(n))
			}
			st.assume(Implies(guard, fact))
		}
	}
}

// frontBuiltin resolves the contract vocabulary of the front-end layer.
func (x *Exec) frontBuiltin(env *SpecEnv, st *State, name string, args []TV) (TV, bool) {
	boolT := types.Typ[types.Bool]
	intT := types.Typ[types.Int]
	calls := func(n string) []recordedCall {
		var out []recordedCall
		for _, r := range st.rec {
			if r.Name == n {
				out = append(out, r)
			}
		}
		return out
	}
	litArg := func(i int) (string, bool) {
		if i >= len(args) {
			return "", false
		}
		return x.sym.LitValue(env.term(args[i]).S)
	}
	intArg := func(i int) (int, bool) {
		if i >= len(args) {
			return 0, false
		}
		v, ok := isIntLit(env.term(args[i]))
		return int(v), ok
	}
	switch name {
	case "calls":
		// calls("name"): how often a callee whose contract says "records name" was called on this path
		if n, ok := litArg(0); ok {
			return TV{VScalar{IntLit(int64(len(calls(n))))}, intT}, true
		}
		return TV{}, false
	case "mask":
		// mask(states): bitwise or of a slice of state flags (also without a database ghost)
		if len(args) == 1 {
			g := &GhostDB{x: x}
			return TV{VScalar{g.maskOf(env, st, args[0], nil)}, types.Typ[types.Int]}, true
		}
		return TV{}, false
	case "urlstring":
		// urlstring(s): (*url.URL).String() of the URL parsed from s (the function the code sees)
		if len(args) == 1 {
			f := x.sym.Func("url.String", []Sort{SStr}, SStr)
			return TV{VScalar{App(SStr, f, env.term(args[0]))}, types.Typ[types.String]}, true
		}
		return TV{}, false
	case "urlpart":
		// urlpart(s, "Path"): the string component of the URL parsed from s (the term the code reads)
		if n, ok := litArg(1); ok && len(args) == 2 {
			f := x.sym.Func("url.field."+n, []Sort{SStr}, SStr)
			return TV{VScalar{App(SStr, f, env.term(args[0]))}, types.Typ[types.String]}, true
		}
		return TV{}, false
	case "funcname":
		// funcname(f): the name of the function a function value denotes ("" when unknown)
		if len(args) == 1 {
			if cl, ok := x.force(st, args[0].V).(VClosure); ok && cl.Fn != nil {
				return TV{VScalar{x.sym.StrLit(cl.Fn.Name())}, types.Typ[types.String]}, true
			}
			return TV{VScalar{x.sym.StrLit("")}, types.Typ[types.String]}, true
		}
		return TV{}, false
	case "callswith":
		// callswith("name", i, v): how many recorded calls of name have argument i (receiver first) equal to
		// the constant v (decided syntactically on integer / string literals)
		if n, ok := litArg(0); ok && len(args) == 3 {
			i, ok2 := intArg(1)
			want, ok3 := x.force(st, args[2].V).(VScalar)
			if !ok2 || !ok3 {
				return TV{}, false
			}
			cnt := 0
			for _, r := range calls(n) {
				if i >= 0 && i < len(r.Args) {
					if got, ok := x.force(st, r.Args[i].V).(VScalar); ok && got.T.S == want.T.S {
						cnt++
					}
				}
			}
			return TV{VScalar{IntLit(int64(cnt))}, intT}, true
		}
		return TV{}, false
	case "unixmilli":
		// unixmilli(t): t.UnixMilli() of a time.Time value (the same term the code computes)
		if len(args) == 1 {
			if sv, ok := x.force(st, args[0].V).(VStruct); ok && len(sv.F) == 3 {
				if sc, ok := x.force(st, sv.F[1]).(VScalar); ok && sc.T.Sort == SInt {
					return TV{VScalar{App(SInt, "div", sc.T, IntLit(1000000))}, types.Typ[types.Int64]}, true
				}
			}
		}
		return TV{}, false
	case "ismap":
		// ismap(v): v (after unwrapping an interface) is a Go map value
		if len(args) == 1 {
			v := x.force(st, args[0].V)
			if iv, ok := v.(VIface); ok && iv.Dyn != nil {
				v = x.force(st, iv.Val)
			}
			_, isM := v.(VMap)
			return TV{VScalar{BoolLit(isM)}, boolT}, true
		}
		return TV{}, false
	case "dyn":
		// dyn(i): the dynamic value of an interface value whose dynamic type is known on this path
		if len(args) == 1 {
			if iv, ok := x.force(st, args[0].V).(VIface); ok && iv.Dyn != nil {
				return TV{iv.Val, iv.Dyn}, true
			}
		}
		return TV{}, false
	case "selects":
		// selects(ch): the select statement at hand (site select) has a case on channel ch
		if len(args) == 1 && x.curSelect != nil && len(st.frames) > 0 {
			want, ok := x.force(st, args[0].V).(VChan)
			if !ok {
				return TV{}, false
			}
			for _, s := range x.curSelect.States {
				if cv, ok := x.force(st, x.eval(st, st.top(), s.Chan)).(VChan); ok {
					if (cv.Obj >= 0 && cv.Obj == want.Obj) || (cv.Id.S != "" && cv.Id.S == want.Id.S) {
						return TV{VScalar{TTrue}, boolT}, true
					}
				}
			}
			return TV{VScalar{TFalse}, boolT}, true
		}
		return TV{}, false
	case "recovers":
		// recovers(): the function under contract has, at this point, registered a deferred function whose body
		// calls recover() and which captures every (named) result of the function — a panic raised by the call at
		// hand does not leave the function, and what the recovering function assigns is what the caller gets
		if len(args) == 0 && len(st.frames) > 0 {
			for _, d := range st.frames[0].defers {
				var fn *ssa.Function
				if cv, ok := x.force(st, d.fn).(VClosure); ok {
					fn = cv.Fn
				} else if f := d.call.StaticCallee(); f != nil {
					fn = f
				}
				if fn == nil {
					continue
				}
				for _, b := range fn.Blocks {
					for _, in := range b.Instrs {
						if c, ok := in.(*ssa.Call); ok {
							if bi, ok := c.Call.Value.(*ssa.Builtin); ok && bi.Name() == "recover" {
								// what the recovering function assigns reaches the caller only through named
								// results that it captures: with unnamed results the values returned after a
								// recovered panic are the zero values - for (value, error) that is "no error"
								top := st.frames[0].fn
								res := top.Signature.Results()
								all := true
								for i := 0; i < res.Len(); i++ {
									found := false
									for _, fv := range fn.FreeVars {
										if res.At(i).Name() != "" && fv.Name() == res.At(i).Name() {
											found = true
										}
									}
									if !found {
										all = false
									}
								}
								return TV{VScalar{BoolLit(all)}, boolT}, true
							}
						}
					}
				}
			}
			return TV{VScalar{TFalse}, boolT}, true
		}
		return TV{}, false
	case "cronexpr":
		// cronexpr(schedule): the expression a cron schedule was parsed from (an unknown string for a schedule
		// of unknown origin)
		if len(args) == 1 {
			if iv, ok := x.force(st, args[0].V).(VIface); ok && x.cronExprs != nil {
				if e, ok := x.cronExprs[iv.Id.S]; ok {
					return TV{VScalar{e}, types.Typ[types.String]}, true
				}
			}
			return TV{VScalar{x.sym.Fresh("cronexpr.unknown", SStr)}, types.Typ[types.String]}, true
		}
		return TV{}, false
	case "jwtverifies":
		// jwtverifies(s): the token s is well formed and its signature verifies (what jwt.ParseWithClaims decides)
		if len(args) == 1 {
			return TV{VScalar{App(SBool, x.sym.Func("jwt.verifies", []Sort{SStr}, SBool), env.term(args[0]))}, boolT}, true
		}
		return TV{}, false
	case "trimprefix":
		// trimprefix(s, p): strings.TrimPrefix(s, p) (the same uninterpreted function the code sees)
		if len(args) == 2 {
			return TV{VScalar{App(SStr, "str.trimprefix", env.term(args[0]), env.term(args[1]))}, types.Typ[types.String]}, true
		}
		return TV{}, false
	case "pure2s":
		// pure2s("strings.TrimPrefix", a, b): the uninterpreted function the engine uses for a standard
		// library function of two strings returning a string
		if n, ok := litArg(0); ok && len(args) == 3 {
			f := x.sym.Func("pure."+n, []Sort{SStr, SStr}, SStr)
			return TV{VScalar{App(SStr, f, env.term(args[1]), env.term(args[2]))}, types.Typ[types.String]}, true
		}
		return TV{}, false
	case "jsonmap2":
		// jsonmap2(k1, v1, k2, v2): json.Marshal(map[string]string{k1: v1, k2: v2})
		if len(args) == 4 {
			m := App(SMapSS, "store", Term{"smap.empty", SMapSS}, env.term(args[0]), App(SOptS, "some", env.term(args[1])))
			m = App(SMapSS, "store", m, env.term(args[2]), App(SOptS, "some", env.term(args[3])))
			return TV{VScalar{App(SBytes, "tojson", m)}, nil}, true
		}
		return TV{}, false
	case "jsonmap1":
		// jsonmap1(k, v): json.Marshal(map[string]string{k: v})
		if len(args) == 2 {
			m := App(SMapSS, "store", Term{"smap.empty", SMapSS}, env.term(args[0]), App(SOptS, "some", env.term(args[1])))
			return TV{VScalar{App(SBytes, "tojson", m)}, nil}, true
		}
		return TV{}, false
	case "jsonstr":
		// jsonstr(data): the Go string a JSON string value decodes to
		if len(args) == 1 {
			f := x.sym.Func("json.str", []Sort{SBytes}, SStr)
			return TV{VScalar{App(SStr, f, env.term(args[0]))}, types.Typ[types.String]}, true
		}
		return TV{}, false
	case "upper":
		if len(args) == 1 {
			return TV{VScalar{App(SStr, "str.upper", env.term(args[0]))}, types.Typ[types.String]}, true
		}
		return TV{}, false
	case "lower":
		// lower(s): strings.ToLower(s) (the same uninterpreted function the code sees)
		if len(args) == 1 {
			return TV{VScalar{App(SStr, "str.lower", env.term(args[0]))}, types.Typ[types.String]}, true
		}
		return TV{}, false
	case "replaceall":
		if len(args) == 3 {
			return TV{VScalar{App(SStr, "str.replaceall", env.term(args[0]), env.term(args[1]), env.term(args[2]))}, types.Typ[types.String]}, true
		}
		return TV{}, false
	case "jsonvalid":
		// jsonvalid(s): json.Valid([]byte(s)) (the same uninterpreted predicate the code sees)
		if len(args) == 1 {
			t := env.term(args[0])
			if t.Sort == SStr {
				t = App(SBytes, "bytes.ofstr", t)
			}
			f := x.sym.Func("json.valid", []Sort{SBytes}, SBool)
			return TV{VScalar{App(SBool, f, t)}, boolT}, true
		}
		return TV{}, false
	case "isstring", "strval", "isptrto":
		// dynamic type tests on an interface value: isstring(v), strval(v), isptrto(v, "Recv")
		if len(args) < 1 {
			return TV{}, false
		}
		iv, ok := x.force(st, args[0].V).(VIface)
		if !ok {
			return TV{}, false
		}
		if iv.Dyn == nil && iv.Id.S != "" && !iv.Nil.IsTrue() {
			// opaque dynamic type of a named interface value: the same symbols a type assertion on it uses
			switch name {
			case "isstring":
				okT := x.sym.Named(iv.Id.S+".as."+typeShort(types.Typ[types.String])+".ok", SBool)
				st.assume(Implies(iv.Nil, Not(okT)))
				x.dynExclusive(st, iv.Id.S, typeShort(types.Typ[types.String]))
				return TV{VScalar{okT}, boolT}, true
			case "strval":
				return TV{x.symbolic(st, types.Typ[types.String], iv.Id.S+".as."+typeShort(types.Typ[types.String])), types.Typ[types.String]}, true
			case "isptrto":
				want, _ := litArg(1)
				var found types.Type
				if env.pkg != nil {
					pkgs := append([]*types.Package{env.pkg}, env.pkg.Imports()...)
					for _, p := range pkgs {
						if tn, ok := p.Scope().Lookup(want).(*types.TypeName); ok {
							found = types.NewPointer(tn.Type())
							break
						}
					}
				}
				if found != nil {
					okT := x.sym.Named(iv.Id.S+".as."+typeShort(found)+".ok", SBool)
					st.assume(Implies(iv.Nil, Not(okT)))
					x.dynExclusive(st, iv.Id.S, typeShort(found))
					return TV{VScalar{okT}, boolT}, true
				}
			}
		}
		if iv.Dyn == nil {
			// unknown dynamic type: nothing is known
			switch name {
			case "strval":
				return TV{VScalar{x.sym.Fresh("strval.unknown", SStr)}, types.Typ[types.String]}, true
			default:
				return TV{VScalar{x.sym.Fresh(name+".unknown", SBool)}, boolT}, true
			}
		}
		switch name {
		case "isstring":
			b, isB := iv.Dyn.Underlying().(*types.Basic)
			return TV{VScalar{And(Not(iv.Nil), BoolLit(isB && b.Kind() == types.String))}, boolT}, true
		case "strval":
			if sc, ok := x.force(st, iv.Val).(VScalar); ok && sc.T.Sort == SStr {
				return TV{sc, types.Typ[types.String]}, true
			}
			return TV{VScalar{x.sym.Fresh("strval.unknown", SStr)}, types.Typ[types.String]}, true
		case "isptrto":
			want, _ := litArg(1)
			pt, isP := iv.Dyn.Underlying().(*types.Pointer)
			okT := false
			if isP {
				tn := types.TypeString(pt.Elem(), func(*types.Package) string { return "" })
				okT = strings.HasSuffix(tn, want)
			}
			nn := TTrue
			if p, ok := x.force(st, iv.Val).(VPtr); ok {
				nn = Not(p.Nil)
			}
			return TV{VScalar{And(Not(iv.Nil), BoolLit(okT), nn)}, boolT}, true
		}
		return TV{}, false
	case "sameslice":
		// sameslice(a, b): the two slice values denote the same elements (same backing array, offset, length)
		if len(args) == 2 {
			a, ok1 := x.force(st, args[0].V).(VSlice)
			b, ok2 := x.force(st, args[1].V).(VSlice)
			if ok1 && ok2 {
				if a.Arr == b.Arr && a.Lo == b.Lo {
					return TV{VScalar{And(Eq(a.Len, b.Len), Eq(a.Nil, b.Nil))}, boolT}, true
				}
				return TV{VScalar{And(a.Nil, b.Nil)}, boolT}, true
			}
		}
		return TV{}, false
	case "iterfresh":
		// iterfresh(p): the object p points to was allocated in the current loop iteration (it is not shared
		// with earlier iterations, e.g. with a coroutine spawned there that still reads it)
		if len(args) == 1 {
			if p, ok := x.force(st, args[0].V).(VPtr); ok && p.Loc != nil {
				return TV{VScalar{BoolLit(p.Loc.Obj >= x.iterObjBase && x.iterObjBase > 0 && !x.symObjs[p.Loc.Obj])}, boolT}, true
			}
			return TV{VScalar{TFalse}, boolT}, true
		}
		return TV{}, false
	case "itercalls":
		// itercalls("name"): recorded calls since the current loop iteration began (site ... backedge)
		if n, ok := litArg(0); ok {
			cnt := 0
			for i, r := range st.rec {
				if i >= x.iterBase && r.Name == n {
					cnt++
				}
			}
			return TV{VScalar{IntLit(int64(cnt))}, intT}, true
		}
		return TV{}, false
	case "iterres":
		// iterres("name", i): result i of the last call recorded in the current loop iteration
		n, ok1 := litArg(0)
		i, ok2 := intArg(1)
		if ok1 && ok2 {
			for k := len(st.rec) - 1; k >= x.iterBase && k >= 0; k-- {
				r := st.rec[k]
				if r.Name == n && i >= 0 && i < len(r.Results) {
					nargs := len(r.Args) - len(r.Results)
					return TV{r.Results[i], r.Args[nargs+i].T}, true
				}
			}
		}
		return TV{}, false
	case "chancap":
		if len(args) == 1 {
			if ch, ok := x.force(st, args[0].V).(VChan); ok && ch.Obj >= 0 {
				if co, ok := st.heap[ch.Obj].(*ChanObj); ok && co.Cap.S != "" {
					return TV{VScalar{co.Cap}, intT}, true
				}
			}
		}
		return TV{}, false
	case "chanlen":
		if len(args) == 1 {
			if ch, ok := x.force(st, args[0].V).(VChan); ok {
				return TV{VScalar{x.chanLen(st, ch)}, intT}, true
			}
		}
		return TV{}, false
	case "callarg", "callres":
		// callarg("name", k, i): argument i (receiver first) of the k-th recorded call; callres: result i
		n, ok1 := litArg(0)
		k, ok2 := intArg(1)
		i, ok3 := intArg(2)
		cs := calls(n)
		if !ok1 || !ok2 || !ok3 || k < 0 || k >= len(cs) {
			return TV{}, false
		}
		if name == "callarg" {
			if i < 0 || i >= len(cs[k].Args) {
				return TV{}, false
			}
			return cs[k].Args[i], true
		}
		if i < 0 || i >= len(cs[k].Results) {
			return TV{}, false
		}
		nargs := len(cs[k].Args) - len(cs[k].Results)
		return TV{cs[k].Results[i], cs[k].Args[nargs+i].T}, true
	case "closed", "sends":
		// closed(ch): the channel is closed; sends(ch): values sent on it by this path
		if len(args) != 1 {
			return TV{}, false
		}
		ch, ok := x.force(st, args[0].V).(VChan)
		if !ok {
			return TV{}, false
		}
		if ch.Obj < 0 {
			if name == "closed" {
				return TV{VScalar{TFalse}, boolT}, true
			}
			return TV{VScalar{IntLit(0)}, intT}, true
		}
		co, ok := st.heap[ch.Obj].(*ChanObj)
		if !ok {
			return TV{}, false
		}
		if name == "closed" {
			c := co.Closed
			if c.S == "" {
				c = TFalse
			}
			return TV{VScalar{c}, boolT}, true
		}
		return TV{VScalar{IntLit(int64(len(co.Sent)))}, intT}, true
	case "ginid":
		// the id path parameter without its leading slash (extractId)
		v := x.sym.Named("gin.param.id", SStr)
		return TV{VScalar{App(SStr, "str.sub", v, IntLit(1), App(SInt, "slen", v))}, types.Typ[types.String]}, true
	case "json_count":
		return TV{VScalar{IntLit(int64(len(calls("json"))))}, intT}, true
	case "json_code":
		cs := calls("json")
		if len(cs) == 0 {
			return TV{VScalar{x.sym.Fresh("nojson", SInt)}, intT}, true
		}
		return cs[len(cs)-1].Args[0], true
	case "json_body":
		cs := calls("json")
		if len(cs) == 0 {
			return TV{}, false
		}
		b := cs[len(cs)-1].Args[1]
		// unwrap the interface holding the body
		if iv, ok := x.force(st, b.V).(VIface); ok && iv.Dyn != nil {
			return TV{iv.Val, iv.Dyn}, true
		}
		return b, true
	case "process_count":
		return TV{VScalar{IntLit(int64(len(calls("process"))))}, intT}, true
	case "process_sub":
		cs := calls("process")
		if len(cs) == 0 {
			return TV{}, false
		}
		return cs[len(cs)-1].Args[2], true
	case "process_id":
		cs := calls("process")
		if len(cs) == 0 {
			return TV{}, false
		}
		return cs[len(cs)-1].Args[1], true
	case "process_res":
		cs := calls("process")
		if len(cs) == 0 {
			return TV{}, false
		}
		sig := cs[len(cs)-1]
		return TV{sig.Results[0], sig.Args[3].T}, true
	case "process_err":
		cs := calls("process")
		if len(cs) == 0 {
			return TV{}, false
		}
		sig := cs[len(cs)-1]
		return TV{sig.Results[1], sig.Args[4].T}, true
	case "grpccode":
		if len(args) != 1 {
			return TV{}, false
		}
		iv, ok := x.force(st, args[0].V).(VIface)
		if !ok {
			return TV{}, false
		}
		if gs, ok := iv.Val.(*GrpcStatus); ok {
			return TV{VScalar{gs.Code}, intT}, true
		}
		return TV{VScalar{x.sym.Fresh("grpccode.unknown", SInt)}, intT}, true
	case "errcode":
		// code of a *t_api.Error held in an error interface
		iv, ok := x.force(st, args[0].V).(VIface)
		if ok && iv.Dyn == nil && iv.Id.S != "" {
			// an error of unknown dynamic type: its code is a function of its identity (the same symbol
			// errors.As yields under an assume-error-type directive)
			return TV{VScalar{x.sym.Named("errdyn."+iv.Id.S+".code", SInt)}, intT}, true
		}
		if !ok || iv.Dyn == nil {
			return TV{VScalar{x.sym.Fresh("errcode.unknown", SInt)}, intT}, true
		}
		p, ok := x.force(st, iv.Val).(VPtr)
		if !ok || p.Loc == nil {
			return TV{}, false
		}
		elem := iv.Dyn.Underlying().(*types.Pointer).Elem()
		for _, fn := range []string{"code", "Code"} {
			if i, _ := structField(elem, fn); i >= 0 {
				return TV{x.force(st, x.load(st, p.Loc.Sub(i))), intT}, true
			}
		}
		return TV{}, false
	case "has_key":
		// has_key(m, "k"): presence in a generic map (gin.H)
		m, ok := x.force(st, args[0].V).(VMap)
		if !ok || m.Obj < 0 {
			return TV{VScalar{TFalse}, boolT}, true
		}
		if ms, ok := st.heap[m.Obj].(MapSS); ok {
			// map[string]string: presence is is-some of the array cell
			return TV{VScalar{Not(App(SBool, "is-none", App(SOptS, "select", ms.A, env.term(args[1]))))}, boolT}, true
		}
		if mg, ok := st.heap[m.Obj].(*MapGen); ok {
			k := env.term(args[1])
			for _, e := range mg.Entries {
				if e.Key.S == k.S {
					return TV{VScalar{e.Present}, boolT}, true
				}
			}
			if mg.Sym {
				// an input map: presence of this key is unknown; remember the entry so that a later
				// lookup of the same key sees the same answer
				elem := m.Typ.Underlying().(*types.Map).Elem()
				ent := MapEntry{Key: k, Present: x.sym.Fresh(mg.Name+".has", SBool), Val: VLazy{Typ: elem, Name: fmt.Sprintf("%s[%s]", mg.Name, k.S)}}
				cp := *mg
				cp.Entries = append(append([]MapEntry(nil), mg.Entries...), ent)
				st.heap[m.Obj] = &cp
				return TV{VScalar{ent.Present}, boolT}, true
			}
			return TV{VScalar{TFalse}, boolT}, true
		}
	}
	return TV{}, false
}

func init() {
	tapi := repoModule + "/internal/kernel/t_api"
	reg(tapi+".NewCursor", "t_api.NewCursor: rejects a token whose signature does not verify; the signing key is a public constant, so an accepted token may carry ARBITRARY claims (Next may be nil or hold any field values)",
		func(x *Exec, st *State, fr *Frame, c *callCtx) bool {
			ct := c.ret.Type().(*types.Tuple).At(0).Type()
			fail := x.sym.Fresh("cursor.rejected", SBool)
			ts, fs := x.fork(st, fail, "cursor rejected")
			// recorded as "newcursor" (results: cursor, error) so that a contract can name the decoded cursor
			rec := func(s *State, res []Value) {
				tup := c.ret.Type().(*types.Tuple)
				as := []TV{{nil, tup.At(0).Type()}, {nil, tup.At(1).Type()}}
				s.rec = append(append([]recordedCall(nil), s.rec...), recordedCall{Name: "newcursor", Args: as, Results: res})
			}
			if ts != nil {
				res := []Value{VPtr{Nil: TTrue, Typ: ct}, x.freshErr(ts, "cursor.err", TFalse)}
				rec(ts, res)
				x.completeCall(ts, c, VTuple{res})
			}
			if fs != nil {
				x.callCounter++
				cur := x.symbolic(fs, ct, fmt.Sprintf("cursor!%d", x.callCounter)).(VPtr)
				fs.assume(Not(cur.Nil))
				res := []Value{cur, VIface{Nil: TTrue, Typ: errType()}}
				rec(fs, res)
				// what the decoded request carried when NewCursor returned, field by field, recorded as
				// "cursornext" (Id, Tags, Limit, SortId): a later assignment to a field of Next does not change it
				if pt, ok := ct.Underlying().(*types.Pointer); ok && cur.Loc != nil {
					if nv, nt := x.fieldOf(fs, cur, pt.Elem(), "Next"); nv != nil {
						if np, ok := nv.(VPtr); ok && np.Loc != nil {
							if npt, ok := nt.Underlying().(*types.Pointer); ok {
								var as []TV
								var vals []Value
								for _, fn := range []string{"Id", "Tags", "Limit", "SortId"} {
									if fv, ft := x.fieldOf(fs, np, npt.Elem(), fn); fv != nil {
										as = append(as, TV{nil, ft})
										vals = append(vals, fv)
									}
								}
								fs.rec = append(append([]recordedCall(nil), fs.rec...), recordedCall{Name: "cursornext", Args: as, Results: vals})
							}
						}
					}
				}
				x.completeCall(fs, c, VTuple{res})
			}
			return true
		})
	reg("(*"+tapi+".Cursor).Encode", "Cursor.Encode: signs the cursor (HMAC with a fixed key); may fail; a token it returns is never the empty string", func(x *Exec, st *State, fr *Frame, c *callCtx) bool {
		v := x.symbolicResult(st, c)
		if t, ok := v.(VTuple); ok && len(t.E) == 2 {
			if tok, ok := x.force(st, t.E[0]).(VScalar); ok {
				if ev, ok := x.force(st, t.E[1]).(VIface); ok {
					st.assume(Implies(ev.Nil, Not(Eq(tok.T, x.sym.StrLit("")))))
				}
			}
		}
		return x.finish(st, fr, c, v)
	})
	reg("(*"+tapi+".Cursor).String", "opaque", noop)
	// gin.New(): a router with gin's documented defaults for the switches that decide how a path becomes a
	// route parameter (UseRawPath false, UnescapePathValues true, RemoveExtraSlash false); everything else opaque
	reg("github.com/gin-gonic/gin.New", "gin.New(): a non-nil engine with UseRawPath=false, UnescapePathValues=true, RemoveExtraSlash=false (gin's defaults); the rest of the engine is not interpreted", func(x *Exec, st *State, fr *Frame, c *callCtx) bool {
		v := x.symbolicResult(st, c)
		p, ok := v.(VPtr)
		if !ok || p.Loc == nil {
			return x.finish(st, fr, c, v)
		}
		st.assume(Not(p.Nil))
		if pt, ok := c.ret.Type().Underlying().(*types.Pointer); ok {
			for name, val := range map[string]Term{"UseRawPath": TFalse, "UnescapePathValues": TTrue, "RemoveExtraSlash": TFalse} {
				if i, _ := structField(pt.Elem(), name); i >= 0 {
					x.store(st, p.Loc.Sub(i), VScalar{val})
				}
			}
		}
		return x.finish(st, fr, c, p)
	})
	// golang-jwt: err == nil exactly when the token is well formed and its signature verifies under the key
	// the key function returns (the uninterpreted predicate jwt.verifies of the token text; the spec builtin
	// jwtverifies(s) is the same term). The claims object is filled from the token's payload in either case
	// (the library decodes the claims before it checks the signature): arbitrary values.
	reg("github.com/golang-jwt/jwt.ParseWithClaims", "jwt.ParseWithClaims: no error iff jwt.verifies(token); the claims receive arbitrary values whether or not the signature verifies; a failure is an arbitrary error value",
		func(x *Exec, st *State, fr *Frame, c *callCtx) bool {
			tup := c.ret.Type().(*types.Tuple)
			ok := App(SBool, x.sym.Func("jwt.verifies", []Sort{SStr}, SBool), x.scalar(st, c.args[0]))
			if cv, isI := x.force(st, c.args[1]).(VIface); isI && cv.Dyn != nil {
				if p, isP := x.force(st, cv.Val).(VPtr); isP && p.Loc != nil {
					if pt, isPT := cv.Dyn.Underlying().(*types.Pointer); isPT {
						x.callCounter++
						x.store(st, p.Loc, x.symbolic(st, pt.Elem(), fmt.Sprintf("jwt.claims!%d", x.callCounter)))
					}
				}
			}
			ts, fs := x.fork(st, ok, "jwt verifies")
			if ts != nil {
				x.callCounter++
				tok := x.symbolic(ts, tup.At(0).Type(), fmt.Sprintf("jwt.token!%d", x.callCounter))
				if tp, isP := tok.(VPtr); isP {
					ts.assume(Not(tp.Nil))
				}
				x.completeCall(ts, c, VTuple{[]Value{tok, VIface{Nil: TTrue, Typ: errType()}}})
			}
			if fs != nil {
				x.callCounter++
				tok := x.symbolic(fs, tup.At(0).Type(), fmt.Sprintf("jwt.token!%d", x.callCounter))
				x.completeCall(fs, c, VTuple{[]Value{tok, x.freshErr(fs, "jwt.err", TFalse)}})
			}
			return true
		})
}
