package main

// Discharging obligations: every query is written to a file and raced across
// z3 4.8.12, z3 5.1.0 (z3-new) and cvc5 1.0.x. The first definitive answer
// wins.

import (
	"bufio"
	"bytes"
	"context"
	"fmt"
	"io"
	"os"
	"os/exec"
	"path/filepath"
	"strings"
	"sync"
	"time"
)

type SolveResult struct {
	Status  string // "unsat", "sat", "unknown"
	Solver  string
	Model   string
	Seconds float64
	File    string
	Raw     string
}

type solverSpec struct {
	name string
	argv func(file string, timeoutS int) []string
}

var solvers = []solverSpec{
	{"z3-4.8.12", func(f string, t int) []string { return []string{"/usr/bin/z3", fmt.Sprintf("-T:%d", t), f} }},
	{"z3-5.1.0", func(f string, t int) []string { return []string{"z3-new", fmt.Sprintf("-T:%d", t), f} }},
	{"cvc5-1.0", func(f string, t int) []string {
		return []string{"cvc5", fmt.Sprintf("--tlimit=%d", t*1000), f}
	}},
}

var solverOrderSeed int

func solveFile(file string, timeoutS int) SolveResult {
	start := time.Now()
	ctx, cancel := context.WithTimeout(context.Background(), time.Duration(timeoutS+2)*time.Second)
	defer cancel()
	type ans struct {
		res SolveResult
	}
	ch := make(chan SolveResult, len(solvers))
	var wg sync.WaitGroup
	for i := range solvers {
		sp := solvers[(i+solverOrderSeed)%len(solvers)]
		wg.Add(1)
		go func(sp solverSpec) {
			defer wg.Done()
			argv := sp.argv(file, timeoutS)
			cmd := exec.CommandContext(ctx, argv[0], argv[1:]...)
			var out bytes.Buffer
			cmd.Stdout = &out
			cmd.Stderr = &out
			_ = cmd.Run()
			s := out.String()
			first := strings.TrimSpace(strings.SplitN(s, "\n", 2)[0])
			r := SolveResult{Status: "unknown", Solver: sp.name, Raw: s, File: file}
			switch first {
			case "unsat":
				r.Status = "unsat"
			case "sat":
				r.Status = "sat"
				if i := strings.Index(s, "\n"); i >= 0 {
					r.Model = s[i+1:]
				}
			}
			ch <- r
		}(sp)
	}
	var last SolveResult
	got := 0
	for got < len(solvers) {
		r := <-ch
		got++
		if r.Status != "unknown" {
			cancel()
			r.Seconds = time.Since(start).Seconds()
			go func() { wg.Wait() }()
			return r
		}
		if last.Raw == "" || len(r.Raw) > 0 {
			last = r
		}
	}
	last.Status = "unknown"
	last.Seconds = time.Since(start).Seconds()
	return last
}

// Query assembles one SMT-LIB file.
type Query struct {
	Name    string
	Prelude string   // datatype / spec definitions
	Decls   string   // declarations of this path's symbols
	Asserts []string // hypotheses
	Goal    Term     // to be proved (negated in the file)
	Comment string
}

func (q *Query) Text() string {
	var b strings.Builder
	b.WriteString("(set-option :produce-models true)\n(set-logic ALL)\n")
	if q.Comment != "" {
		for _, l := range strings.Split(q.Comment, "\n") {
			b.WriteString("; " + l + "\n")
		}
	}
	b.WriteString(q.Prelude)
	b.WriteString(q.Decls)
	for _, a := range q.Asserts {
		b.WriteString("(assert " + a + ")\n")
	}
	b.WriteString("(assert (not " + q.Goal.S + "))\n")
	b.WriteString("(check-sat)\n(get-model)\n")
	return b.String()
}

func sanitizeFile(s string) string {
	var b strings.Builder
	for _, r := range s {
		if r >= 'a' && r <= 'z' || r >= 'A' && r <= 'Z' || r >= '0' && r <= '9' || r == '_' || r == '-' || r == '.' {
			b.WriteRune(r)
		} else {
			b.WriteByte('_')
		}
	}
	out := b.String()
	if len(out) > 150 {
		out = out[:150]
	}
	return out
}

func (q *Query) Solve(dir string, timeoutS int) SolveResult {
	_ = os.MkdirAll(dir, 0o755)
	file := filepath.Join(dir, sanitizeFile(q.Name)+".smt2")
	txt := q.Text()
	if err := os.WriteFile(file, []byte(txt), 0o644); err != nil {
		return SolveResult{Status: "unknown", Raw: err.Error()}
	}
	r := solveFile(file, timeoutS)
	r.File = file
	return r
}

// --------------------------------------------------------------------------
// Incremental feasibility oracle (one z3 process, push/pop over a pipe).

type Incr struct {
	cmd   *exec.Cmd
	in    *bytes.Buffer
	mu    sync.Mutex
	pre   string
	calls int
}

// Feasible answers whether the conjunction can be satisfied; "unknown" counts
// as feasible (sound for path pruning).
func feasible(prelude, decls string, asserts []string) bool {
	var b strings.Builder
	b.WriteString("(set-logic ALL)\n")
	b.WriteString(prelude)
	b.WriteString(decls)
	for _, a := range asserts {
		b.WriteString("(assert " + a + ")\n")
	}
	b.WriteString("(check-sat)\n")
	ctx, cancel := context.WithTimeout(context.Background(), 4*time.Second)
	defer cancel()
	cmd := exec.CommandContext(ctx, "z3-new", "-T:2", "-in")
	cmd.Stdin = strings.NewReader(b.String())
	out, _ := cmd.CombinedOutput()
	return !strings.HasPrefix(strings.TrimSpace(string(out)), "unsat")
}

// IncrSolver keeps one z3 process alive and answers feasibility queries with
// push/pop. Symbols are declared globally as they appear.
type IncrSolver struct {
	cmd      *exec.Cmd
	stdin    io.WriteCloser
	stdout   *bufio.Reader
	declared int // number of sym decls already sent
	litsSent int
	dead     bool
	Calls    int
}

func NewIncrSolver(prelude string) *IncrSolver {
	cmd := exec.Command("z3-new", "-in")
	in, err := cmd.StdinPipe()
	if err != nil {
		return nil
	}
	out, err := cmd.StdoutPipe()
	if err != nil {
		return nil
	}
	cmd.Stderr = nil
	if err := cmd.Start(); err != nil {
		return nil
	}
	s := &IncrSolver{cmd: cmd, stdin: in, stdout: bufio.NewReader(out)}
	fmt.Fprintf(in, "(set-option :timeout 1500)\n(set-logic ALL)\n%s\n", prelude)
	return s
}

func (s *IncrSolver) Close() {
	if s == nil || s.dead {
		return
	}
	s.dead = true
	_ = s.stdin.Close()
	_ = s.cmd.Process.Kill()
	_, _ = s.cmd.Process.Wait()
}

// Check returns false only when the conjunction is definitely unsatisfiable.
func (s *IncrSolver) Check(sym *SymCtx, asserts []string) bool {
	if s == nil || s.dead {
		return true
	}
	s.Calls++
	var b strings.Builder
	// new literals: declare and keep them pairwise distinct from all earlier ones
	for s.litsSent < len(sym.litOrder) {
		lit := sym.litOrder[s.litsSent]
		name := sym.lits[lit]
		if !sym.isPreset[name] {
			fmt.Fprintf(&b, "(declare-const %s Str)\n", name)
		}
		fmt.Fprintf(&b, "(assert (= (slen %s) %d))\n", name, len(lit))
		for k := 0; k < s.litsSent; k++ {
			fmt.Fprintf(&b, "(assert (not (= %s %s)))\n", name, sym.lits[sym.litOrder[k]])
		}
		s.litsSent++
	}
	for s.declared < len(sym.decls) {
		d := sym.decls[s.declared]
		if d.Args != nil {
			as := make([]string, len(d.Args))
			for i, a := range d.Args {
				as[i] = string(a)
			}
			fmt.Fprintf(&b, "(declare-fun %s (%s) %s)\n", d.Name, strings.Join(as, " "), d.Sort)
		} else {
			fmt.Fprintf(&b, "(declare-const %s %s)\n", d.Name, d.Sort)
		}
		s.declared++
	}
	b.WriteString("(push)\n")
	for _, a := range asserts {
		b.WriteString("(assert " + a + ")\n")
	}
	b.WriteString("(check-sat)\n(pop)\n")
	t0 := time.Now()
	defer func() {
		if d := time.Since(t0); d > time.Second && os.Getenv("GOVC_DEBUG_SLOW") != "" {
			_ = os.WriteFile(fmt.Sprintf("/tmp/x/slow-%d.smt2", s.Calls), []byte(b.String()), 0o644)
			fmt.Fprintf(os.Stderr, "slow feasibility query %d: %v\n", s.Calls, d)
		}
	}()
	if _, err := io.WriteString(s.stdin, b.String()); err != nil {
		s.dead = true
		return true
	}
	for {
		line, err := s.stdout.ReadString('\n')
		if err != nil {
			s.dead = true
			return true
		}
		line = strings.TrimSpace(line)
		switch line {
		case "unsat":
			return false
		case "sat", "unknown":
			return true
		case "":
			continue
		default:
			if strings.HasPrefix(line, "(error") {
				fmt.Fprintln(os.Stderr, "incremental solver:", line)
				// an error line is followed by the check-sat answer; treat as feasible
				continue
			}
		}
	}
}
