; Store command specifications, written from the property statements (C16:
; "create only if absent, complete only if pending, register a callback only
; on a pending promise and only once, update a task only if its state and
; counter match, acquire a lock only if free or held by the same execution,
; and report exactly the rows changed"; C01, C05, C07, C08, C09, C10 for the
; values written). Each table effect is pointwise in the key k:
;   spec.<Cmd>.<table>(old row at k, k, [autoinc], command arguments..., [rows of other tables])
; Tables not mentioned by a command are unchanged (checked as a frame obligation).
; Row.<table>, set.<table>.<col>, absent.<table> are generated from the CREATE
; TABLE text of the source tree.

(define-fun sqladd ((a Int) (b Int)) Int (+ a b))
(define-fun sqlsub ((a Int) (b Int)) Int (- a b))

; promise states / task states
(define-fun P_PENDING () Int 1) (define-fun P_RESOLVED () Int 2) (define-fun P_REJECTED () Int 4)
(define-fun P_CANCELED () Int 8) (define-fun P_TIMEDOUT () Int 16)
(define-fun T_INIT () Int 1) (define-fun T_ENQUEUED () Int 2) (define-fun T_CLAIMED () Int 4)
(define-fun T_COMPLETED () Int 8) (define-fun T_TIMEDOUT () Int 16)

(define-fun p.pending ((r Row.promises)) Bool (and (promises.present r) (= (promises.state r) (isome 1))))

; ---------------------------------------------------------------- promises
(define-fun spec.CreatePromise.promises ((old Row.promises) (k Str) (auto Int)
    (id Str) (ph Bytes) (pd Bytes) (timeout Int) (ikc OptStr) (tags Bytes) (con Int)) Row.promises
  (ite (and (= k id) (not (promises.present old)))
    (set.promises.present (set.promises.id (set.promises.sort_id (set.promises.state
      (set.promises.param_headers (set.promises.param_data (set.promises.timeout
      (set.promises.idempotency_key_for_create (set.promises.tags (set.promises.created_on
        absent.promises (isome con)) (bsome tags)) ikc) (isome timeout)) (bsome pd)) (bsome ph))
      (isome 1)) (isome auto)) (some id)) true)
    old))
(define-fun rows.CreatePromise ((pre Row.promises)) Int (ite (promises.present pre) 0 1))

; complete only if pending; the five completion columns are written together
(define-fun spec.UpdatePromise.promises ((old Row.promises) (k Str)
    (id Str) (state Int) (vh Bytes) (vd Bytes) (iku OptStr) (con Int)) Row.promises
  (ite (and (= k id) (p.pending old))
    (set.promises.state (set.promises.value_headers (set.promises.value_data
      (set.promises.idempotency_key_for_complete (set.promises.completed_on old (isome con)) iku)
      (bsome vd)) (bsome vh)) (isome state))
    old))
(define-fun rows.UpdatePromise ((pre Row.promises)) Int (ite (p.pending pre) 1 0))

; ---------------------------------------------------------------- callbacks
; register only on a pending promise and only once per callback id
(define-fun spec.CreateCallback.callbacks ((old Row.callbacks) (k Str)
    (id Str) (pid Str) (root Str) (recv Bytes) (mesg Bytes) (timeout Int) (con Int) (p Row.promises)) Row.callbacks
  (ite (and (= k id) (not (callbacks.present old)) (p.pending p))
    (set.callbacks.present (set.callbacks.id (set.callbacks.promise_id (set.callbacks.root_promise_id
      (set.callbacks.recv (set.callbacks.mesg (set.callbacks.timeout (set.callbacks.created_on
        absent.callbacks (isome con)) (isome timeout)) (bsome mesg)) (bsome recv)) (some root)) (some pid)) (some id)) true)
    old))
(define-fun rows.CreateCallback ((pre Row.callbacks) (p Row.promises)) Int
  (ite (and (not (callbacks.present pre)) (p.pending p)) 1 0))

(define-fun cb.of ((r Row.callbacks) (pid Str)) Bool (and (callbacks.present r) (= (callbacks.promise_id r) (some pid))))
(define-fun spec.DeleteCallbacks.callbacks ((old Row.callbacks) (k Str) (pid Str)) Row.callbacks
  (ite (cb.of old pid) absent.callbacks old))

; ---------------------------------------------------------------- schedules
(define-fun spec.CreateSchedule.schedules ((old Row.schedules) (k Str) (auto Int)
    (id Str) (desc Str) (cron Str) (tags Bytes) (pid Str) (ptimeout Int) (pph Bytes) (ppd Bytes) (ptags Bytes)
    (next Int) (ik OptStr) (con Int)) Row.schedules
  (ite (and (= k id) (not (schedules.present old)))
    (set.schedules.present (set.schedules.id (set.schedules.sort_id (set.schedules.description (set.schedules.cron
      (set.schedules.tags (set.schedules.promise_id (set.schedules.promise_timeout (set.schedules.promise_param_headers
      (set.schedules.promise_param_data (set.schedules.promise_tags (set.schedules.next_run_time
      (set.schedules.idempotency_key (set.schedules.created_on absent.schedules (isome con)) ik) (isome next))
      (bsome ptags)) (bsome ppd)) (bsome pph)) (isome ptimeout)) (some pid)) (bsome tags)) (some cron)) (some desc))
      (isome auto)) (some id)) true)
    old))
(define-fun rows.CreateSchedule ((pre Row.schedules)) Int (ite (schedules.present pre) 0 1))

; advance only from the occurrence the caller saw: last := that occurrence, next := the given one
(define-fun sched.at ((r Row.schedules) (last OptInt)) Bool
  (and (schedules.present r) (not (is-inone last)) (= (schedules.next_run_time r) last)))
(define-fun spec.UpdateSchedule.schedules ((old Row.schedules) (k Str) (id Str) (last OptInt) (next Int)) Row.schedules
  (ite (and (= k id) (sched.at old last))
    (set.schedules.last_run_time (set.schedules.next_run_time old (isome next)) (schedules.next_run_time old))
    old))
(define-fun rows.UpdateSchedule ((pre Row.schedules) (last OptInt)) Int (ite (sched.at pre last) 1 0))

(define-fun spec.DeleteSchedule.schedules ((old Row.schedules) (k Str) (id Str)) Row.schedules
  (ite (and (= k id) (schedules.present old)) absent.schedules old))
(define-fun rows.DeleteSchedule ((pre Row.schedules)) Int (ite (schedules.present pre) 1 0))

; ---------------------------------------------------------------- locks
; acquire only if free or held by the same execution (then owner process, ttl and expiry are renewed)
(define-fun lock.heldby ((r Row.locks) (eid Str)) Bool (and (locks.present r) (= (locks.execution_id r) (some eid))))
(define-fun spec.AcquireLock.locks ((old Row.locks) (k Str) (rid Str) (eid Str) (pid Str) (ttl Int) (exp Int)) Row.locks
  (ite (= k rid)
    (ite (not (locks.present old))
      (set.locks.present (set.locks.resource_id (set.locks.execution_id (set.locks.process_id (set.locks.ttl
        (set.locks.expires_at absent.locks (isome exp)) (isome ttl)) (some pid)) (some eid)) (some rid)) true)
      (ite (lock.heldby old eid)
        (set.locks.process_id (set.locks.ttl (set.locks.expires_at old (isome exp)) (isome ttl)) (some pid))
        old))
    old))
(define-fun rows.AcquireLock ((pre Row.locks) (eid Str)) Int
  (ite (or (not (locks.present pre)) (lock.heldby pre eid)) 1 0))

(define-fun spec.ReleaseLock.locks ((old Row.locks) (k Str) (rid Str) (eid Str)) Row.locks
  (ite (and (= k rid) (lock.heldby old eid)) absent.locks old))
(define-fun rows.ReleaseLock ((pre Row.locks) (eid Str)) Int (ite (lock.heldby pre eid) 1 0))

; heartbeat: every lock of the process gets expiry := time + its own ttl; nothing is created or transferred
(define-fun lock.ofproc ((r Row.locks) (pid Str)) Bool (and (locks.present r) (= (locks.process_id r) (some pid))))
(define-fun spec.HeartbeatLocks.locks ((old Row.locks) (k Str) (pid Str) (time Int)) Row.locks
  (ite (lock.ofproc old pid)
    (set.locks.expires_at old (ite (is-inone (locks.ttl old)) inone (isome (+ time (ival (locks.ttl old))))))
    old))

; sweep: remove exactly the locks whose lease has run out
(define-fun lock.expired ((r Row.locks) (time Int)) Bool
  (and (locks.present r) (not (is-inone (locks.expires_at r))) (<= (ival (locks.expires_at r)) time)))
(define-fun spec.TimeoutLocks.locks ((old Row.locks) (k Str) (time Int)) Row.locks
  (ite (lock.expired old time) absent.locks old))

; ---------------------------------------------------------------- tasks
(define-fun spec.CreateTask.tasks ((old Row.tasks) (k Str) (auto Int)
    (id Str) (recv Bytes) (mesg Bytes) (timeout Int) (pid OptStr) (state Int) (root Str) (ttl Int) (exp Int) (con Int)) Row.tasks
  (ite (and (= k id) (not (tasks.present old)))
    (set.tasks.present (set.tasks.id (set.tasks.sort_id (set.tasks.process_id (set.tasks.state (set.tasks.root_promise_id
      (set.tasks.recv (set.tasks.mesg (set.tasks.timeout (set.tasks.counter (set.tasks.attempt (set.tasks.ttl
      (set.tasks.expires_at (set.tasks.created_on absent.tasks (isome con)) (isome exp)) (isome ttl)) (isome 0)) (isome 1))
      (isome timeout)) (bsome mesg)) (bsome recv)) (some root)) (isome state)) pid) (isome auto)) (some id)) true)
    old))
(define-fun rows.CreateTask ((pre Row.tasks)) Int (ite (tasks.present pre) 0 1))

; a routed promise and its invocation task are created together or not at all
(define-fun spec.CreatePromiseAndTask.tasks ((old Row.tasks) (k Str) (auto Int)
    (id Str) (recv Bytes) (mesg Bytes) (timeout Int) (pid OptStr) (state Int) (root Str) (ttl Int) (exp Int) (con Int)
    (p Row.promises)) Row.tasks
  (ite (not (promises.present p))
    (spec.CreateTask.tasks old k auto id recv mesg timeout pid state root ttl exp con)
    old))
(define-fun rows.CreatePromiseAndTask.task ((pre Row.tasks) (p Row.promises)) Int
  (ite (and (not (promises.present p)) (not (tasks.present pre))) 1 0))

; every registration of the promise becomes one task (same id, receiver, message, timeout, root), initial state
(define-fun spec.CreateTasks.tasks ((old Row.tasks) (k Str) (auto Int) (pid Str) (con Int) (cb Row.callbacks)) Row.tasks
  (ite (and (cb.of cb pid) (not (tasks.present old)))
    (set.tasks.present (set.tasks.id (set.tasks.sort_id (set.tasks.state (set.tasks.root_promise_id
      (set.tasks.recv (set.tasks.mesg (set.tasks.timeout (set.tasks.counter (set.tasks.attempt (set.tasks.ttl
      (set.tasks.expires_at (set.tasks.created_on absent.tasks (isome con)) (isome 0)) (isome 0)) (isome 0)) (isome 1))
      (callbacks.timeout cb)) (callbacks.mesg cb)) (callbacks.recv cb)) (callbacks.root_promise_id cb)) (isome 1))
      (isome auto)) (callbacks.id cb)) true)
    old))

; completing a promise completes all of its unfinished tasks
(define-fun task.active ((r Row.tasks)) Bool
  (and (tasks.present r) (or (= (tasks.state r) (isome 1)) (= (tasks.state r) (isome 2)) (= (tasks.state r) (isome 4)))))
(define-fun task.ofroot ((r Row.tasks) (root Str)) Bool (and (task.active r) (= (tasks.root_promise_id r) (some root))))
(define-fun spec.CompleteTasks.tasks ((old Row.tasks) (k Str) (root Str) (con Int)) Row.tasks
  (ite (task.ofroot old root) (set.tasks.state (set.tasks.completed_on old (isome con)) (isome 8)) old))

; update only if the state is one of the expected ones and the counter matches
(define-fun task.matches ((r Row.tasks) (mask Int) (cur Int)) Bool
  (and (tasks.present r) (not (is-inone (tasks.state r))) (not (= (band (ival (tasks.state r)) mask) 0))
       (= (tasks.counter r) (isome cur))))
(define-fun spec.UpdateTask.tasks ((old Row.tasks) (k Str)
    (id Str) (pid OptStr) (state Int) (counter Int) (attempt Int) (ttl Int) (exp Int) (con OptInt) (mask Int) (cur Int)) Row.tasks
  (ite (and (= k id) (task.matches old mask cur))
    (set.tasks.process_id (set.tasks.state (set.tasks.counter (set.tasks.attempt (set.tasks.ttl (set.tasks.expires_at
      (set.tasks.completed_on old con) (isome exp)) (isome ttl)) (isome attempt)) (isome counter)) (isome state)) pid)
    old))
(define-fun rows.UpdateTask ((pre Row.tasks) (mask Int) (cur Int)) Int (ite (task.matches pre mask cur) 1 0))

; heartbeat: only claimed tasks of the process, expiry := time + the task's own ttl
(define-fun task.heldby ((r Row.tasks) (pid Str)) Bool
  (and (tasks.present r) (= (tasks.process_id r) (some pid)) (= (tasks.state r) (isome 4))))
(define-fun spec.HeartbeatTasks.tasks ((old Row.tasks) (k Str) (pid Str) (time Int)) Row.tasks
  (ite (task.heldby old pid)
    (set.tasks.expires_at old (ite (is-inone (tasks.ttl old)) inone (isome (+ time (ival (tasks.ttl old))))))
    old))

; ---------------------------------------------------------------- set reads (sweeps)
; each returned record is a present row satisfying the predicate (at most Limit of them)
(define-fun pred.ReadPromises ((r Row.promises) (time Int)) Bool
  (and (p.pending r) (not (is-inone (promises.timeout r))) (<= (ival (promises.timeout r)) time)))
(define-fun pred.ReadSchedules ((r Row.schedules) (time Int)) Bool
  (and (not (is-inone (schedules.next_run_time r))) (<= (ival (schedules.next_run_time r)) time)))
(define-fun pred.ReadTasks ((r Row.tasks) (mask Int) (time Int)) Bool
  (and (not (is-inone (tasks.state r))) (not (= (band (ival (tasks.state r)) mask) 0))
       (or (and (not (is-inone (tasks.expires_at r))) (<= (ival (tasks.expires_at r)) time))
           (and (not (is-inone (tasks.timeout r))) (<= (ival (tasks.timeout r)) time)))))
(define-fun pred.ReadEnqueueableTasks ((r Row.tasks)) Bool (= (tasks.state r) (isome 1)))
