; NOTE: no quantified axioms here: facts about tojson/jsonmap/itoa are added by
; the engine as ground instances at the terms it creates, so that failed
; obligations come back as sat with a model instead of unknown.
; Basic sorts and uninterpreted vocabulary shared by all obligations.
(declare-sort Str 0)
(declare-sort Bytes 0)
(declare-sort ErrId 0)
(declare-datatypes ((OptStr 0)) (((none) (some (val Str)))))
(declare-datatypes ((OptInt 0)) (((inone) (isome (ival Int)))))
(declare-datatypes ((OptBytes 0)) (((bnone) (bsome (bval Bytes)))))
(define-sort SMap () (Array Str OptStr))
(declare-fun slen (Str) Int)
(declare-fun bytes.len (Bytes) Int)
(declare-const bytes.empty Bytes)
(declare-const json.null Bytes)
(declare-fun smap.len (SMap) Int)
(define-fun smap.empty () SMap ((as const SMap) none))
(declare-fun smap.merge (SMap SMap) SMap)
(declare-fun tojson (SMap) Bytes)
(declare-fun jsonmap (Bytes) SMap)
(declare-fun bytes.ofstr (Str) Bytes)
(declare-fun str.ofbytes (Bytes) Str)
(declare-fun str.cat (Str Str) Str)
(declare-fun str.sub (Str Int Int) Str)
(declare-fun str.at (Str Int) Int)
(declare-fun str.lt (Str Str) Bool)
(declare-fun str.replaceall (Str Str Str) Str)
(declare-fun str.lower (Str) Str)
(declare-fun str.upper (Str) Str)
(declare-fun str.trimspace (Str) Str)
(declare-fun str.trimprefix (Str Str) Str)
(declare-fun str.trimsuffix (Str Str) Str)
(declare-fun str.hasprefix (Str Str) Bool)
(declare-fun str.hassuffix (Str Str) Bool)
(declare-fun str.contains (Str Str) Bool)
(declare-fun str.ofrune (Int) Str)
(declare-fun itoa (Int) Str)
; machine integers: SMT Int with explicit two's complement wrap-around
(define-fun wrap64 ((x Int)) Int
  (ite (> x 9223372036854775807) (- x 18446744073709551616)
  (ite (< x (- 9223372036854775808)) (+ x 18446744073709551616) x)))
(define-fun wrapu64 ((x Int)) Int (mod x 18446744073709551616))
(define-fun wrap32 ((x Int)) Int
  (let ((m (mod x 4294967296))) (ite (> m 2147483647) (- m 4294967296) m)))
(define-fun wrapto ((x Int) (lo Int) (hi Int)) Int
  (let ((m (mod (- x lo) (+ (- hi lo) 1)))) (+ lo m)))
; Go division truncates toward zero
(define-fun goquo ((a Int) (b Int)) Int
  (ite (= b 0) 0 (ite (>= a 0) (ite (> b 0) (div a b) (- (div a (- b))))
                               (ite (> b 0) (- (div (- a) b)) (div (- a) (- b))))))
(define-fun gorem ((a Int) (b Int)) Int (- a (* b (goquo a b))))
; bit operations: exact on 0..63 (all state enums and masks of the code base
; live in 0..31), unspecified elsewhere
(declare-fun band.u (Int Int) Int)
(declare-fun bor.u (Int Int) Int)
(define-fun bit ((x Int) (k Int)) Bool (= (mod (div x k) 2) 1))
(define-fun small ((x Int)) Bool (and (<= 0 x) (< x 64)))
(define-fun band ((x Int) (y Int)) Int
  (ite (and (small x) (small y))
    (+ (ite (and (bit x 1) (bit y 1)) 1 0) (ite (and (bit x 2) (bit y 2)) 2 0)
       (ite (and (bit x 4) (bit y 4)) 4 0) (ite (and (bit x 8) (bit y 8)) 8 0)
       (ite (and (bit x 16) (bit y 16)) 16 0) (ite (and (bit x 32) (bit y 32)) 32 0))
    (band.u x y)))
(define-fun bor ((x Int) (y Int)) Int
  (ite (and (small x) (small y))
    (+ (ite (or (bit x 1) (bit y 1)) 1 0) (ite (or (bit x 2) (bit y 2)) 2 0)
       (ite (or (bit x 4) (bit y 4)) 4 0) (ite (or (bit x 8) (bit y 8)) 8 0)
       (ite (or (bit x 16) (bit y 16)) 16 0) (ite (or (bit x 32) (bit y 32)) 32 0))
    (bor.u x y)))
(declare-fun bxor (Int Int) Int)
(declare-fun bandnot (Int Int) Int)
(declare-fun bshl (Int Int) Int)
(declare-fun bshr (Int Int) Int)
(declare-fun bnot (Int) Int)
; ground facts about the encoding of the empty header map (used by the specs)
(assert (= (jsonmap (tojson smap.empty)) smap.empty))
(assert (not (= (tojson smap.empty) json.null)))
(assert (= (jsonmap json.null) smap.empty))

; codec of message.Mesg{Type, Root, Leaf} (declared here so that the views can decode stored messages;
; the engine adds the ground instances unjson.i(tojson(a0,a1,a2)) = ai for every message it encodes)
(declare-fun tojson.message.Mesg (Str Str Str) Bytes)
(declare-fun unjson.message.Mesg.0 (Bytes) Str)
(declare-fun unjson.message.Mesg.1 (Bytes) Str)
(declare-fun unjson.message.Mesg.2 (Bytes) Str)

; @lit lit.notify "notify"
; @lit lit.invoke "invoke"
(declare-const lit.notify Str)
(declare-const lit.invoke Str)
; @lit lit.resonate_timeout "resonate:timeout"
; @lit lit.true "true"
; @lit lit.empty ""
(declare-const lit.resonate_timeout Str)
(declare-const lit.true Str)
(declare-const lit.empty Str)
; NULL-able blob columns as client data: absent == empty
(define-fun hdrs ((b OptBytes)) SMap (ite (is-bnone b) smap.empty (jsonmap (bval b))))
(define-fun data ((b OptBytes)) Bytes (ite (is-bnone b) bytes.empty (bval b)))
