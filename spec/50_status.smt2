; Statuses the kernel can produce per operation (proved as postconditions of the request coroutines,
; assumed by the front-end contracts through the contract of api.Process).
(define-fun kstatus.ReadPromise ((s Int)) Bool (or (= s 20000) (= s 40400)))
(define-fun kstatus.SearchPromises ((s Int)) Bool (= s 20000))
(define-fun kstatus.CreatePromise ((s Int)) Bool (or (= s 20100) (= s 20000) (= s 40900)))
(define-fun kstatus.CompletePromise ((s Int)) Bool (or (= s 20100) (= s 20000) (= s 40300) (= s 40301) (= s 40302) (= s 40303) (= s 40400)))
(define-fun kstatus.CreateCallback ((s Int)) Bool (or (= s 20000) (= s 20100) (= s 40001) (= s 40400)))
(define-fun kstatus.CreateSubscription ((s Int)) Bool (or (= s 20000) (= s 20100) (= s 40400)))
(define-fun kstatus.ReadSchedule ((s Int)) Bool (or (= s 20000) (= s 40401)))
(define-fun kstatus.SearchSchedules ((s Int)) Bool (= s 20000))
(define-fun kstatus.CreateSchedule ((s Int)) Bool (or (= s 20100) (= s 20000) (= s 40901)))
(define-fun kstatus.DeleteSchedule ((s Int)) Bool (or (= s 20400) (= s 40401)))
(define-fun kstatus.AcquireLock ((s Int)) Bool (or (= s 20100) (= s 40304)))
(define-fun kstatus.ReleaseLock ((s Int)) Bool (or (= s 20400) (= s 40402)))
(define-fun kstatus.HeartbeatLocks ((s Int)) Bool (= s 20000))
(define-fun kstatus.ClaimTask ((s Int)) Bool (or (= s 20100) (= s 40305) (= s 40306) (= s 40307) (= s 40403)))
(define-fun kstatus.CompleteTask ((s Int)) Bool (or (= s 20100) (= s 20000) (= s 40307) (= s 40308) (= s 40403)))
(define-fun kstatus.HeartbeatTasks ((s Int)) Bool (= s 20000))
(define-fun successful ((s Int)) Bool (and (>= s 20000) (< s 30000)))
; error codes: store failure from every coroutine, receiver-not-found from creation, and the
; platform errors raised by the kernel / api queue themselves
(define-fun kerr.platform ((s Int)) Bool (or (= s 50004) (= s 50300) (= s 50301) (= s 50303)))
(define-fun kerr.create ((s Int)) Bool (or (kerr.platform s) (= s 40404)))
; gRPC code for a kernel status, by status class (the property's "mapped error code")
(define-fun grpc.code ((s Int)) Int
  (ite (successful s) 0
  (ite (and (>= s 40000) (< s 40100)) 3      ; InvalidArgument
  (ite (and (>= s 40300) (< s 40400)) 7      ; PermissionDenied
  (ite (and (>= s 40400) (< s 40500)) 5      ; NotFound
  (ite (and (>= s 40900) (< s 41000)) 6      ; AlreadyExists
  (ite (and (>= s 50000) (< s 50100)) 13     ; Internal
  (ite (and (>= s 50300) (< s 50400)) 14     ; Unavailable
  2))))))))
; every status the kernel defines (t_api/status.go): the domain on which StatusCode.String is total
(define-fun kstatus.any ((s Int)) Bool
  (or (= s 20000) (= s 20100) (= s 20400)
      (= s 40000) (= s 40001) (= s 40300) (= s 40301) (= s 40302) (= s 40303) (= s 40304) (= s 40305) (= s 40306) (= s 40307) (= s 40308)
      (= s 40400) (= s 40401) (= s 40402) (= s 40403) (= s 40404) (= s 40900) (= s 40901)
      (= s 50000) (= s 50001) (= s 50002) (= s 50003) (= s 50004) (= s 50300) (= s 50301) (= s 50302) (= s 50303)))
