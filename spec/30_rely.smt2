; Two-state guarantees (rely/guarantee) and one-state row invariants, written
; from the property statements. They are
;   - assumed about the interference of other coroutines between two store
;     submissions of one coroutine (rely), and about the rows of the initial
;     database (rowinv);
;   - proved for every command spec under the command's precondition
;     (guarantee lemmas, govc lemmas), so that by induction over the sequence of
;     committed transactions they hold for every history.

; ---- promises (C01): created pending; leaves pending at most once, to one of the four
; completed states; completed rows are frozen; creation fields never change; a row never disappears.
(define-fun p.state.ok ((s OptInt)) Bool (or (= s (isome 1)) (= s (isome 2)) (= s (isome 4)) (= s (isome 8)) (= s (isome 16))))
(define-fun p.completed ((r Row.promises)) Bool
  (and (promises.present r) (or (= (promises.state r) (isome 2)) (= (promises.state r) (isome 4))
                                (= (promises.state r) (isome 8)) (= (promises.state r) (isome 16)))))
(define-fun rowinv.promises ((r Row.promises)) Bool
  (and (p.state.ok (promises.state r))
       (not (is-none (promises.id r))) (not (is-inone (promises.sort_id r)))
       (not (is-bnone (promises.param_headers r))) (not (is-bnone (promises.param_data r)))
       (not (is-inone (promises.timeout r))) (not (is-bnone (promises.tags r))) (not (is-inone (promises.created_on r)))
       (=> (= (promises.state r) (isome 1))
           (and (is-bnone (promises.value_headers r)) (is-bnone (promises.value_data r))
                (is-none (promises.idempotency_key_for_complete r)) (is-inone (promises.completed_on r))))
       (=> (not (= (promises.state r) (isome 1)))
           (and (not (is-bnone (promises.value_headers r))) (not (is-bnone (promises.value_data r)))
                (not (is-inone (promises.completed_on r)))))
       ; C04: a stored timed-out promise was completed at its timeout
       (=> (= (promises.state r) (isome 16)) (= (promises.completed_on r) (promises.timeout r)))))
(define-fun p.creation.eq ((a Row.promises) (b Row.promises)) Bool
  (and (= (promises.id a) (promises.id b)) (= (promises.sort_id a) (promises.sort_id b))
       (= (promises.param_headers a) (promises.param_headers b)) (= (promises.param_data a) (promises.param_data b))
       (= (promises.timeout a) (promises.timeout b))
       (= (promises.idempotency_key_for_create a) (promises.idempotency_key_for_create b))
       (= (promises.tags a) (promises.tags b)) (= (promises.created_on a) (promises.created_on b))))
(define-fun rely.promises.stays ((a Row.promises) (b Row.promises)) Bool
  (=> (promises.present a) (and (promises.present b) (p.creation.eq a b))))
(define-fun rely.promises.writeonce ((a Row.promises) (b Row.promises)) Bool (=> (p.completed a) (= b a)))
(define-fun rely.promises.rowinv ((a Row.promises) (b Row.promises)) Bool (=> (promises.present b) (rowinv.promises b)))
; C04: a promise tagged to resolve on timeout never becomes timed-out (it resolves instead); whoever times it
; out -- lazy reader or sweep -- must honour the tag
(define-fun rely.promises.timeouttag ((a Row.promises) (b Row.promises)) Bool
  (=> (and (promises.present a) (= (promises.state a) (isome 1)) (= (promises.state b) (isome 16)))
      (not (= (select (hdrs (promises.tags a)) lit.resonate_timeout) (some lit.true)))))
(define-fun rely.promises ((a Row.promises) (b Row.promises)) Bool
  (and (rely.promises.stays a b) (rely.promises.writeonce a b) (rely.promises.rowinv a b) (rely.promises.timeouttag a b)))

; ---- callbacks (C05): a registration is written once and only ever removed
(define-fun rowinv.callbacks ((r Row.callbacks)) Bool
  (and (not (is-none (callbacks.id r))) (not (is-none (callbacks.promise_id r))) (not (is-none (callbacks.root_promise_id r)))
       (not (is-bnone (callbacks.recv r))) (not (is-bnone (callbacks.mesg r))) (not (= (callbacks.mesg r) (bsome json.null)))
       (not (is-inone (callbacks.timeout r)))
       ; a registration carries a resume or notify message, never an invocation (C08: invocation tasks are born with their promise)
       (not (= (unjson.message.Mesg.0 (data (callbacks.mesg r))) lit.invoke))))
(define-fun rely.callbacks.fixed ((a Row.callbacks) (b Row.callbacks)) Bool (=> (and (callbacks.present a) (callbacks.present b)) (= a b)))
(define-fun rely.callbacks.rowinv ((a Row.callbacks) (b Row.callbacks)) Bool (=> (callbacks.present b) (rowinv.callbacks b)))
(define-fun rely.callbacks ((a Row.callbacks) (b Row.callbacks)) Bool (and (rely.callbacks.fixed a b) (rely.callbacks.rowinv a b)))

; ---- schedules
(define-fun rowinv.schedules ((r Row.schedules)) Bool
  (and (not (is-none (schedules.id r))) (not (is-inone (schedules.sort_id r))) (not (is-none (schedules.cron r)))
       (not (is-none (schedules.description r)))
       (not (is-bnone (schedules.tags r))) (not (is-none (schedules.promise_id r))) (not (is-inone (schedules.promise_timeout r)))
       (not (is-bnone (schedules.promise_param_headers r))) (not (is-bnone (schedules.promise_param_data r)))
       (not (is-bnone (schedules.promise_tags r))) (not (is-inone (schedules.next_run_time r)))
       (not (is-inone (schedules.created_on r)))))
(define-fun rely.schedules.rowinv ((a Row.schedules) (b Row.schedules)) Bool (=> (schedules.present b) (rowinv.schedules b)))
(define-fun rely.schedules ((a Row.schedules) (b Row.schedules)) Bool (rely.schedules.rowinv a b))

; ---- locks (C09)
(define-fun rowinv.locks ((r Row.locks)) Bool
  (and (not (is-none (locks.resource_id r))) (not (is-none (locks.execution_id r))) (not (is-none (locks.process_id r)))
       (not (is-inone (locks.ttl r))) (not (is-inone (locks.expires_at r)))))
(define-fun rely.locks.rowinv ((a Row.locks) (b Row.locks)) Bool (=> (locks.present b) (rowinv.locks b)))
(define-fun rely.locks ((a Row.locks) (b Row.locks)) Bool (rely.locks.rowinv a b))

; ---- tasks (C07): counters never decrease; finished tasks are frozen; a task that
; leaves the claimed state for init/enqueued does so with a larger counter; identity fields are fixed
(define-fun t.state.ok ((s OptInt)) Bool (or (= s (isome 1)) (= s (isome 2)) (= s (isome 4)) (= s (isome 8)) (= s (isome 16))))
(define-fun t.finished ((r Row.tasks)) Bool
  (and (tasks.present r) (or (= (tasks.state r) (isome 8)) (= (tasks.state r) (isome 16)))))
(define-fun rowinv.tasks ((r Row.tasks)) Bool
  (and (t.state.ok (tasks.state r)) (not (is-none (tasks.id r))) (not (is-inone (tasks.sort_id r)))
       (not (is-none (tasks.root_promise_id r))) (not (is-bnone (tasks.recv r))) (not (is-bnone (tasks.mesg r)))
       (not (= (tasks.mesg r) (bsome json.null)))
       (not (is-inone (tasks.timeout r))) (not (is-inone (tasks.counter r))) (not (is-inone (tasks.attempt r)))
       (not (is-inone (tasks.ttl r))) (not (is-inone (tasks.expires_at r)))
       (>= (ival (tasks.counter r)) 1)
       ; an unfinished task has no completion time
       (=> (or (= (tasks.state r) (isome 1)) (= (tasks.state r) (isome 2)) (= (tasks.state r) (isome 4))) (is-inone (tasks.completed_on r)))))
(define-fun t.identity.eq ((a Row.tasks) (b Row.tasks)) Bool
  (and (= (tasks.id a) (tasks.id b)) (= (tasks.sort_id a) (tasks.sort_id b)) (= (tasks.root_promise_id a) (tasks.root_promise_id b))
       (= (tasks.recv a) (tasks.recv b)) (= (tasks.mesg a) (tasks.mesg b)) (= (tasks.timeout a) (tasks.timeout b))
       (= (tasks.created_on a) (tasks.created_on b))))
(define-fun rely.tasks.stays ((a Row.tasks) (b Row.tasks)) Bool
  (=> (tasks.present a) (and (tasks.present b) (t.identity.eq a b))))
(define-fun rely.tasks.counter ((a Row.tasks) (b Row.tasks)) Bool
  (=> (tasks.present a) (>= (ival (tasks.counter b)) (ival (tasks.counter a)))))
(define-fun rely.tasks.finished ((a Row.tasks) (b Row.tasks)) Bool
  (=> (t.finished a) (and (t.finished b) (= (tasks.state b) (tasks.state a)) (= (tasks.counter b) (tasks.counter a))
                          (= (tasks.completed_on b) (tasks.completed_on a)))))
(define-fun rely.tasks.fence ((a Row.tasks) (b Row.tasks)) Bool
  (=> (and (tasks.present a) (= (tasks.state a) (isome 4)) (or (= (tasks.state b) (isome 1)) (= (tasks.state b) (isome 2))))
      (> (ival (tasks.counter b)) (ival (tasks.counter a)))))
(define-fun rely.tasks.rowinv ((a Row.tasks) (b Row.tasks)) Bool (=> (tasks.present b) (rowinv.tasks b)))
(define-fun rely.tasks ((a Row.tasks) (b Row.tasks)) Bool
  (and (rely.tasks.stays a b) (rely.tasks.counter a b) (rely.tasks.finished a b) (rely.tasks.fence a b) (rely.tasks.rowinv a b)))

; ---- C05 cross-table step property, at an arbitrary registration key k:
;   cb0/cb1  registration row at k before/after the transaction
;   p0a/p1a  promise named by cb0 before/after;  p1b promise named by cb1 after
;   t0/t1    task row at k before/after
; Invariant: a registration only exists while its promise is pending.
; Step: if the promise of an existing registration leaves pending in this transaction, the
; registration is removed and a task with the registration's id, receiver, message, timeout
; and root exists afterwards (initial state when it is new), all in this same transaction.
(define-fun xinv.C05 ((cb Row.callbacks) (p Row.promises)) Bool (=> (callbacks.present cb) (p.pending p)))
(define-fun xguar.C05 ((cb0 Row.callbacks) (cb1 Row.callbacks) (p0a Row.promises) (p1a Row.promises) (p1b Row.promises)
                       (t0 Row.tasks) (t1 Row.tasks)) Bool
  (=> (xinv.C05 cb0 p0a)
      (and (xinv.C05 cb1 p1b)
           (=> (and (callbacks.present cb0) (not (p.pending p1a)))
               (and (not (callbacks.present cb1))
                    (tasks.present t1)
                    (=> (not (tasks.present t0))
                        (and (= (tasks.id t1) (callbacks.id cb0)) (= (tasks.recv t1) (callbacks.recv cb0))
                             (= (tasks.mesg t1) (callbacks.mesg cb0)) (= (tasks.timeout t1) (callbacks.timeout cb0))
                             (= (tasks.root_promise_id t1) (callbacks.root_promise_id cb0))
                             (= (tasks.state t1) (isome 1)) (= (tasks.counter t1) (isome 1)))))))))

; ---- C08 cross-table step property: when a promise leaves pending, none of its tasks stays active.
;   t0/t1 task at an arbitrary key, p0/p1 its root promise before/after
(define-fun xguar.C08 ((t0 Row.tasks) (t1 Row.tasks) (p0 Row.promises) (p1 Row.promises)) Bool
  (=> (and (task.active t0) (p.pending p0) (not (p.pending p1)) (promises.present p1))
      (and (tasks.present t1) (= (tasks.state t1) (isome 8)))))

; ---- ASSUMED (never proved) bounds on stored bookkeeping counters: fewer than 2^62 reclaims /
; hand-off attempts of one task. They only serve to rule out machine-integer wrap-around of counter+1.
(define-fun rowassume.tasks ((r Row.tasks)) Bool
  (and (<= (ival (tasks.counter r)) 4611686018427387904) (<= 0 (ival (tasks.attempt r))) (<= (ival (tasks.attempt r)) 4611686018427387904)))

; ---- C07 lease clause, per task update: an update that may take a CLAIMED task to a state other
; than completed (re-init, enqueue, time-out) is only issued after the coroutine has observed that
; very claim (same counter) with its lease or the task's timeout run out at the observation time.
;   obs: the row the coroutine observed, tobs: clock at the observation, mask/cur/newstate: the update
(define-fun xguar.C07.lease ((obs Row.tasks) (tobs Int) (mask Int) (cur Int) (newstate Int)) Bool
  (=> (and (not (= (band mask 4) 0)) (not (= newstate 8)))
      (and (tasks.present obs) (= (tasks.state obs) (isome 4)) (= (tasks.counter obs) (isome cur))
           (or (<= (ival (tasks.expires_at obs)) tobs) (<= (ival (tasks.timeout obs)) tobs)))))

; ---- C05/C08: an unclaimed task (init or enqueued) is finished as "completed" only in the transaction in
; which its root promise leaves pending, or -- for a notification -- by the dispatcher after its hand-off attempt.
; (A task that is completed in any other way is never delivered: a lost wake-up.)
(define-fun xguar.C08.unclaimed ((t0 Row.tasks) (t1 Row.tasks) (p0 Row.promises) (p1 Row.promises)) Bool
  (=> (and (tasks.present t0) (or (= (tasks.state t0) (isome 1)) (= (tasks.state t0) (isome 2))) (= (tasks.state t1) (isome 8)))
      (or (and (p.pending p0) (not (p.pending p1)))
          (= (unjson.message.Mesg.0 (data (tasks.mesg t0))) lit.notify))))

; ---- C08/C06: an invocation task is born only in the transaction that creates its (root) promise:
; a routed promise and its task are one atomic step, never two.
(define-fun xguar.C08.born ((t0 Row.tasks) (t1 Row.tasks) (p0 Row.promises) (p1 Row.promises)) Bool
  (=> (and (not (tasks.present t0)) (tasks.present t1) (= (unjson.message.Mesg.0 (data (tasks.mesg t1))) lit.invoke))
      (and (not (promises.present p0)) (promises.present p1))))
