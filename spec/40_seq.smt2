; Sequential specification of the API operations (the oracle of the
; per-operation linearization contracts), written from the property statements
; C01, C03, C04, C05, C07, C09, C10. For an operation handled at database
; state db and clock value T:  status / shown resource = F(request, db, T),
; database afterwards = E(request, db, T). Client data absent == empty.

; @lit lit.resonate_timeout "resonate:timeout"
; @lit lit.true "true"
; @lit lit.empty ""
(declare-const lit.resonate_timeout Str)
(declare-const lit.true Str)
(declare-const lit.empty Str)

; ---- what a client sees of a promise
(declare-datatypes ((PView 0)) (((mk.pview (pv.id Str) (pv.state Int) (pv.param_headers SMap) (pv.param_data Bytes)
  (pv.value_headers SMap) (pv.value_data Bytes) (pv.timeout Int) (pv.ikc OptStr) (pv.iku OptStr) (pv.tags SMap)
  (pv.created_on OptInt) (pv.completed_on OptInt)))))
(define-fun hdrs ((b OptBytes)) SMap (ite (is-bnone b) smap.empty (jsonmap (bval b))))
(define-fun data ((b OptBytes)) Bytes (ite (is-bnone b) bytes.empty (bval b)))
(define-fun pview.row ((r Row.promises)) PView
  (mk.pview (val (promises.id r)) (ival (promises.state r)) (hdrs (promises.param_headers r)) (data (promises.param_data r))
    (hdrs (promises.value_headers r)) (data (promises.value_data r)) (ival (promises.timeout r))
    (promises.idempotency_key_for_create r) (promises.idempotency_key_for_complete r) (hdrs (promises.tags r))
    (promises.created_on r) (promises.completed_on r)))

; ---- C04: an overdue pending promise is timed out (resolved if tagged), empty value, completed at its timeout
(define-fun p.overdue ((r Row.promises) (now Int)) Bool (and (p.pending r) (<= (ival (promises.timeout r)) now)))
(define-fun p.timeout.state ((r Row.promises)) Int
  (ite (= (select (hdrs (promises.tags r)) lit.resonate_timeout) (some lit.true)) 2 16))
(define-fun p.timeout.row ((r Row.promises)) Row.promises
  (set.promises.state (set.promises.value_headers (set.promises.value_data
    (set.promises.idempotency_key_for_complete (set.promises.completed_on r (promises.timeout r)) none)
    (bsome bytes.empty)) (bsome (tojson smap.empty))) (isome (p.timeout.state r))))
; the row as the operation must treat it at clock value now
(define-fun p.effective ((r Row.promises) (now Int)) Row.promises (ite (p.overdue r now) (p.timeout.row r) r))
; an operation may leave an overdue promise as stored or install its time-out
(define-fun p.lazy ((pre Row.promises) (post Row.promises) (now Int)) Bool (or (= post pre) (= post (p.effective pre now))))

(define-fun key.match ((a OptStr) (b OptStr)) Bool (and (not (is-none a)) (not (is-none b)) (= a b)))

; ---- read
(define-fun seq.read.status ((p Row.promises)) Int (ite (promises.present p) 20000 40400))

; ---- create (C03): on an existing promise OK iff the creation key matches and not (strict and no longer pending)
(define-fun seq.create.status.exists ((p Row.promises) (now Int) (ik OptStr) (strict Bool)) Int
  (let ((e (p.effective p now)))
    (ite (and (key.match (promises.idempotency_key_for_create e) ik) (not (and strict (not (= (promises.state e) (isome 1))))))
         20000 40900)))
; the row a successful creation writes
(define-fun seq.create.row.ok ((q Row.promises) (id Str) (ph SMap) (pd Bytes) (timeout Int) (ik OptStr) (tags SMap) (now Int)) Bool
  (and (promises.present q) (= (promises.state q) (isome 1))
       (= (pview.row q) (mk.pview id 1 ph pd smap.empty bytes.empty timeout ik none tags (isome now) inone))))

; ---- complete (C03/C04)
(define-fun p.already ((s OptInt)) Int (ite (= s (isome 2)) 40300 (ite (= s (isome 4)) 40301 (ite (= s (isome 8)) 40302 40303))))
(define-fun seq.complete.status ((p Row.promises) (now Int) (state Int) (ik OptStr) (strict Bool)) Int
  (ite (not (promises.present p)) 40400
    (let ((e (p.effective p now)))
      (ite (p.pending e) 20100
        (ite (or (and (key.match (promises.idempotency_key_for_complete e) ik) (not (and strict (not (= (promises.state e) (isome state))))))
                 (and (not strict) (= (promises.state e) (isome 16))))
             20000 (p.already (promises.state e)))))))
; the row after a completion request handled at clock value now
(define-fun seq.complete.row ((p Row.promises) (now Int) (state Int) (vh SMap) (vd Bytes) (ik OptStr)) Row.promises
  (let ((e (p.effective p now)))
    (ite (p.pending e)
      (set.promises.state (set.promises.value_headers (set.promises.value_data
        (set.promises.idempotency_key_for_complete (set.promises.completed_on e (isome now)) ik)
        (bsome vd)) (bsome (tojson vh))) (isome state))
      e)))
