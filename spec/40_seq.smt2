; Sequential specification of the API operations (the oracle of the
; per-operation linearization contracts), written from the property statements
; C01, C03, C04, C05, C07, C09, C10. For an operation handled at database
; state db and clock value T:  status / shown resource = F(request, db, T),
; database afterwards = E(request, db, T). Client data absent == empty.

; (the literals lit.resonate_timeout, lit.true, lit.empty are declared in 00_prelude.smt2)

; ---- what a client sees of a promise
(declare-datatypes ((PView 0)) (((mk.pview (pv.id Str) (pv.state Int) (pv.param_headers SMap) (pv.param_data Bytes)
  (pv.value_headers SMap) (pv.value_data Bytes) (pv.timeout Int) (pv.ikc OptStr) (pv.iku OptStr) (pv.tags SMap)
  (pv.created_on OptInt) (pv.completed_on OptInt)))))
(define-fun pview.row ((r Row.promises)) PView
  (mk.pview (val (promises.id r)) (ival (promises.state r)) (hdrs (promises.param_headers r)) (data (promises.param_data r))
    (hdrs (promises.value_headers r)) (data (promises.value_data r)) (ival (promises.timeout r))
    (promises.idempotency_key_for_create r) (promises.idempotency_key_for_complete r) (hdrs (promises.tags r))
    (promises.created_on r) (promises.completed_on r)))

; ---- C04: an overdue pending promise is timed out (resolved if tagged), empty value, completed at its timeout
(define-fun p.overdue ((r Row.promises) (now Int)) Bool (and (p.pending r) (<= (ival (promises.timeout r)) now)))
(define-fun p.timeout.state ((r Row.promises)) Int
  (ite (= (select (hdrs (promises.tags r)) lit.resonate_timeout) (some lit.true)) 2 16))
(define-fun p.timeout.row ((r Row.promises)) Row.promises
  (set.promises.state (set.promises.value_headers (set.promises.value_data
    (set.promises.idempotency_key_for_complete (set.promises.completed_on r (promises.timeout r)) none)
    (bsome bytes.empty)) (bsome (tojson smap.empty))) (isome (p.timeout.state r))))
; the row as the operation must treat it at clock value now
(define-fun p.effective ((r Row.promises) (now Int)) Row.promises (ite (p.overdue r now) (p.timeout.row r) r))
; an operation may leave an overdue promise as stored or install its time-out
(define-fun p.lazy ((pre Row.promises) (post Row.promises) (now Int)) Bool (or (= post pre) (= post (p.effective pre now))))

(define-fun key.match ((a OptStr) (b OptStr)) Bool (and (not (is-none a)) (not (is-none b)) (= a b)))

; ---- read
(define-fun seq.read.status ((p Row.promises)) Int (ite (promises.present p) 20000 40400))

; ---- create (C03): on an existing promise OK iff the creation key matches and not (strict and no longer pending)
(define-fun seq.create.status.exists ((p Row.promises) (now Int) (ik OptStr) (strict Bool)) Int
  (let ((e (p.effective p now)))
    (ite (and (key.match (promises.idempotency_key_for_create e) ik) (not (and strict (not (= (promises.state e) (isome 1))))))
         20000 40900)))
; the row a successful creation writes
(define-fun seq.create.row.ok ((q Row.promises) (id Str) (ph SMap) (pd Bytes) (timeout Int) (ik OptStr) (tags SMap) (now Int)) Bool
  (and (promises.present q) (= (promises.state q) (isome 1))
       (= (pview.row q) (mk.pview id 1 ph pd smap.empty bytes.empty timeout ik none tags (isome now) inone))))

; ---- complete (C03/C04)
(define-fun p.already ((s OptInt)) Int (ite (= s (isome 2)) 40300 (ite (= s (isome 4)) 40301 (ite (= s (isome 8)) 40302 40303))))
(define-fun seq.complete.status ((p Row.promises) (now Int) (state Int) (ik OptStr) (strict Bool)) Int
  (ite (not (promises.present p)) 40400
    (let ((e (p.effective p now)))
      (ite (p.pending e) 20100
        (ite (or (and (key.match (promises.idempotency_key_for_complete e) ik) (not (and strict (not (= (promises.state e) (isome state))))))
                 (and (not strict) (= (promises.state e) (isome 16))))
             20000 (p.already (promises.state e)))))))
; the row after a completion request handled at clock value now
(define-fun seq.complete.row ((p Row.promises) (now Int) (state Int) (vh SMap) (vd Bytes) (ik OptStr)) Row.promises
  (let ((e (p.effective p now)))
    (ite (p.pending e)
      (set.promises.state (set.promises.value_headers (set.promises.value_data
        (set.promises.idempotency_key_for_complete (set.promises.completed_on e (isome now)) ik)
        (bsome vd)) (bsome (tojson vh))) (isome state))
      e)))

; ================================================================= locks (C09)
(declare-datatypes ((LView 0)) (((mk.lview (lv.resource_id Str) (lv.execution_id Str) (lv.process_id Str) (lv.ttl Int) (lv.expires_at Int)))))
(define-fun lview.row ((r Row.locks)) LView
  (mk.lview (val (locks.resource_id r)) (val (locks.execution_id r)) (val (locks.process_id r)) (ival (locks.ttl r)) (ival (locks.expires_at r))))
(define-fun lock.row ((rid Str) (eid Str) (pid Str) (ttl Int) (exp Int)) Row.locks
  (set.locks.present (set.locks.resource_id (set.locks.execution_id (set.locks.process_id (set.locks.ttl
    (set.locks.expires_at absent.locks (isome exp)) (isome ttl)) (some pid)) (some eid)) (some rid)) true))
; acquire: granted iff free or held by the same execution; the lease then runs until T + ttl.
; A lock held by another execution whose lease has NOT expired must be refused; after expiry and
; before the sweep removed it the property leaves the outcome open (the server refuses).
(define-fun seq.acquire ((pre Row.locks) (post Row.locks) (T Int) (status Int) (rid Str) (eid Str) (pid Str) (ttl Int)) Bool
  (ite (or (not (locks.present pre)) (lock.heldby pre eid))
    (and (= status 20100) (= post (lock.row rid eid pid ttl (+ T ttl))))
    (and (= status 40304) (= post pre))))
(define-fun seq.release ((pre Row.locks) (post Row.locks) (status Int) (eid Str)) Bool
  (ite (lock.heldby pre eid) (and (= status 20400) (= post absent.locks)) (and (= status 40402) (= post pre))))

; ================================================================= tasks (C07)
(declare-datatypes ((TView 0)) (((mk.tview (tv.id Str) (tv.process_id OptStr) (tv.state Int) (tv.root Str) (tv.recv Bytes) (tv.mesg_type Str) (tv.mesg_root Str) (tv.mesg_leaf Str)
  (tv.timeout Int) (tv.counter Int) (tv.attempt Int) (tv.ttl Int) (tv.expires_at Int) (tv.created_on OptInt) (tv.completed_on OptInt)))))
(define-fun tview.row ((r Row.tasks)) TView
  (mk.tview (val (tasks.id r)) (tasks.process_id r) (ival (tasks.state r)) (val (tasks.root_promise_id r)) (data (tasks.recv r)) (unjson.message.Mesg.0 (data (tasks.mesg r))) (unjson.message.Mesg.1 (data (tasks.mesg r))) (unjson.message.Mesg.2 (data (tasks.mesg r)))
    (ival (tasks.timeout r)) (ival (tasks.counter r)) (ival (tasks.attempt r)) (ival (tasks.ttl r)) (ival (tasks.expires_at r))
    (tasks.created_on r) (tasks.completed_on r)))
(define-fun t.state ((r Row.tasks) (s Int)) Bool (and (tasks.present r) (= (tasks.state r) (isome s))))
(define-fun t.claimable ((r Row.tasks) (counter Int)) Bool
  (and (tasks.present r) (or (= (tasks.state r) (isome 1)) (= (tasks.state r) (isome 2))) (= (tasks.counter r) (isome counter))))
; claim: succeeds only for an unclaimed, unfinished task with the current counter; then the caller holds it until T + ttl
(define-fun seq.claim ((pre Row.tasks) (post Row.tasks) (T Int) (status Int) (counter Int) (pid Str) (ttl Int)) Bool
  (ite (t.claimable pre counter)
    ; (the retry counter "attempt" is bookkeeping and left unconstrained)
    (and (= status 20100)
         (= (set.tasks.attempt post (isome 0))
            (set.tasks.attempt (set.tasks.process_id (set.tasks.state (set.tasks.ttl (set.tasks.expires_at pre (isome (+ T ttl))) (isome ttl)) (isome 4)) (some pid)) (isome 0))))
    (and (= post pre)
         (ite (not (tasks.present pre)) (= status 40403)
           (and (or (= status 40305) (= status 40306) (= status 40307))
                (=> (= status 40305) (t.state pre 4))
                (=> (= status 40306) (t.finished pre))
                (=> (= status 40307) (not (= (tasks.counter pre) (isome counter)))))))))
; complete: only the holder's counter completes a claimed task; a finished task is merely acknowledged
(define-fun seq.completetask ((pre Row.tasks) (post Row.tasks) (T Int) (status Int) (counter Int)) Bool
  (ite (and (t.state pre 4) (= (tasks.counter pre) (isome counter)))
    (and (= status 20100)
         (= post (set.tasks.process_id (set.tasks.state (set.tasks.attempt (set.tasks.ttl (set.tasks.expires_at
                   (set.tasks.completed_on pre (isome T)) (isome 0)) (isome 0)) (isome 0)) (isome 8)) none)))
    (and (= post pre)
         (ite (not (tasks.present pre)) (= status 40403)
           (ite (t.finished pre) (= status 20000)
             (ite (t.state pre 4) (= status 40307) (= status 40308)))))))

; ================================================================= schedules (C10)
(declare-datatypes ((SView 0)) (((mk.sview (sv.id Str) (sv.desc Str) (sv.cron Str) (sv.tags SMap) (sv.promise_id Str) (sv.promise_timeout Int)
  (sv.pph SMap) (sv.ppd Bytes) (sv.ptags SMap) (sv.last OptInt) (sv.next Int) (sv.ik OptStr) (sv.created_on Int)))))
(define-fun sview.row ((r Row.schedules)) SView
  (mk.sview (val (schedules.id r)) (val (schedules.description r)) (val (schedules.cron r)) (hdrs (schedules.tags r)) (val (schedules.promise_id r))
    (ival (schedules.promise_timeout r)) (hdrs (schedules.promise_param_headers r)) (data (schedules.promise_param_data r))
    (hdrs (schedules.promise_tags r)) (schedules.last_run_time r) (ival (schedules.next_run_time r)) (schedules.idempotency_key r)
    (ival (schedules.created_on r))))
; next occurrence of a cron expression strictly after t (cron library, assumed)
(declare-fun cronnext (Str Int) Int)
; the same in nanoseconds, for an arbitrary reference instant (used only inside util.Next)
(declare-fun cronnextns (Str Int) Int)
(define-fun seq.createschedule.status.exists ((pre Row.schedules) (ik OptStr)) Int
  (ite (key.match (schedules.idempotency_key pre) ik) 20000 40901))

; ================================================================= callbacks (C05)
(declare-datatypes ((CView 0)) (((mk.cview (cv.id Str) (cv.promise_id Str) (cv.root Str) (cv.recv Bytes) (cv.mesg_type Str) (cv.mesg_root Str) (cv.mesg_leaf Str) (cv.timeout Int) (cv.created_on Int)))))
(define-fun cview.row ((r Row.callbacks)) CView
  (mk.cview (val (callbacks.id r)) (val (callbacks.promise_id r)) (val (callbacks.root_promise_id r)) (data (callbacks.recv r)) (unjson.message.Mesg.0 (data (callbacks.mesg r))) (unjson.message.Mesg.1 (data (callbacks.mesg r))) (unjson.message.Mesg.2 (data (callbacks.mesg r)))
    (ival (callbacks.timeout r)) (ival (callbacks.created_on r))))
