#!/bin/bash
# tools/confirm_seed.sh <seed dir> <id> <demo file[,demo file...]> <dest dir> <go test args...>
# Confirms a seeded change in a scratch worktree of /repo's HEAD: the demonstration passes on the unchanged
# tree, the patch applies and builds, the demonstration fails with it, and the full suite passes with it.
export GOFLAGS=-mod=mod GOPROXY=off GOSUMDB=off GOTOOLCHAIN=local
D=$1; ID=$2; DEMO=$3; DEST=$4; shift 4
WT=/tmp/cw-$ID
git -C /repo worktree remove --force $WT >/dev/null 2>&1; rm -rf $WT
git -C /repo worktree add -q --detach $WT HEAD || exit 2
cd $WT
res() { echo "SEED $ID: $1"; cd /; git -C /repo worktree remove --force $WT >/dev/null 2>&1; rm -rf $WT; exit $2; }
git apply --check $D/patch.diff 2>/dev/null || res "patch does not apply to HEAD" 1
mkdir -p $DEST && for f in ${DEMO//,/ }; do cp $D/$f $DEST/; done
go test -vet=off -count=1 -timeout 10m "$@" >/tmp/cw-$ID.pristine.log 2>&1 || res "demo FAILS on the unchanged tree (see /tmp/cw-$ID.pristine.log)" 1
git apply $D/patch.diff
go build ./... >/tmp/cw-$ID.build.log 2>&1 || res "does not build" 1
go test -vet=off -count=1 -timeout 10m "$@" >/tmp/cw-$ID.seeded.log 2>&1 && res "demo PASSES with the change (not a demonstration)" 1
for f in ${DEMO//,/ }; do rm -f $DEST/$f; done; rmdir $DEST 2>/dev/null
go test -vet=off -count=1 -timeout 25m ./... >/tmp/cw-$ID.suite.log 2>&1 || res "suite FAILS with the change: $(grep -E '^(FAIL|---)' /tmp/cw-$ID.suite.log | head -3 | tr '\n' ' ')" 1
rm -f /tmp/cw-$ID.*.log
res "confirmed (demo passes unchanged, fails with the change; builds; suite passes)" 0
