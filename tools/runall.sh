#!/bin/bash
# tools/runall.sh [quick|thorough]: every claimed check on the current tree, 3 at a time; then validates the evidence files.
cd /verif
tier=${1:-quick}
props=$(python3 -c "import json;print(' '.join(c['property_id'] for c in json.load(open('MANIFEST.json'))['checks']))")
mkdir -p /tmp/runall
echo $props | tr ' ' '\n' | xargs -P 3 -I{} sh -c "./check {} $tier > /tmp/runall/{}.log 2>&1; echo \"{} rc=\$? \$(tail -1 /tmp/runall/{}.log)\""
python3-vt - <<'PY'
import json,jsonschema,sys
m=json.load(open('/verif/MANIFEST.json'))
sch=json.load(open('/root/.vp/EVIDENCE.schema.json'))
bad=0
for c in m['checks']:
    p=c['property_id']
    try:
        e=json.load(open('/verif/evidence/%s.json'%p))
        jsonschema.validate(e,sch)
        cov=e['coverage']
        if cov['obligations']!=cov['discharged'] or e['violations']!=0:
            print('EVIDENCE MISMATCH',p,cov['obligations'],cov['discharged'],e['violations']); bad=1
    except Exception as ex:
        print('EVIDENCE INVALID',p,str(ex)[:200]); bad=1
print('evidence ok' if not bad else 'evidence PROBLEMS')
PY
if grep -l "^VIOLATION" /tmp/runall/*.log; then exit 1; fi; exit 0
