#!/bin/bash
# tools/run_seeds_par.sh [-j N] [id...]: like run_seeds.sh, but every seeded change is applied to its own
# scratch worktree of /repo's HEAD (removed afterwards) and checked with a scratch output directory, N seeds
# at a time; /repo itself is not touched. Writes seeded/RESULTS.tsv when run for all seeds.
cd /verif
export GOFLAGS=-mod=mod GOPROXY=off GOSUMDB=off GOTOOLCHAIN=local
J=4
if [ "$1" = "-j" ]; then J=$2; shift 2; fi
sel="$*"
OUT=/tmp/seedpar-$$; rm -rf $OUT; mkdir -p $OUT
# the engine binary and the commit of /repo are pinned at the start, so that a long run is not disturbed by
# rebuilds of the engine or later hook commits
GOVC=/tmp/seedpar-govc-$$; cp /verif/bin/govc $GOVC; REV=$(git -C /repo rev-parse HEAD); export GOVC REV
one() {
  id=$1; checks=$2
  WT=/tmp/sw-$id; SV=/tmp/sv-$id
  git -C /repo worktree remove --force $WT >/dev/null 2>&1; rm -rf $WT $SV
  git -C /repo worktree add -q --detach $WT $REV || { echo "$id: worktree failed"; return; }
  git -C $WT apply /verif/seeded/$id/patch.diff || { echo "$id: patch does not apply" > $OUT/$id.tsv; git -C /repo worktree remove --force $WT; return; }
  mkdir -p $SV; for f in spec known_findings.txt replaysrc tools bin; do ln -s /verif/$f $SV/$f; done
  : > $OUT/$id.tsv
  for prop in $checks; do
    out=$($GOVC check -repo $WT -verif $SV $prop quick 2>&1); rc=$?
    n=$(echo "$out" | grep -c '^VIOLATION')
    first=$(echo "$out" | grep -m1 '^VIOLATION' | sed 's/.*replay=//; s/ .*//')
    obl=""; [ -n "$first" ] && obl=$(grep -m1 '^failed obligation:' $first | cut -c20-160)
    printf "%s\t%s\t%s\t%s\t%s\n" "$id" "$prop" "$rc" "$n" "$(basename "$first") $obl" >> $OUT/$id.tsv
  done
  cat $OUT/$id.tsv
  git -C /repo worktree remove --force $WT >/dev/null 2>&1; rm -rf $WT $SV
}
export -f one; export OUT
while IFS=$'\t' read id demo dest args checks; do
  [ -n "$sel" ] && ! echo " $sel " | grep -q " $id " && continue
  echo "$id|$checks"
done < seeded/seeds.tsv | xargs -P $J -I{} bash -c 'IFS="|" read id checks <<< "{}"; one "$id" "$checks"'
git -C /repo worktree prune
if [ -z "$sel" ]; then cat $OUT/*.tsv | sort > seeded/RESULTS.tsv; fi
rm -rf $OUT $GOVC
