#!/usr/bin/env python3
# tools/model.py <query.smt2> [substring...]: prints the constants of the solver's model (filtered).
import subprocess, sys, re
f=sys.argv[1]; pats=sys.argv[2:]
out=subprocess.run(['z3-new','-T:20',f],capture_output=True,text=True).stdout
print(out.split('\n')[0])
# crude split of (define-fun name () Sort value)
for m in re.finditer(r'\(define-fun (\S+|\|[^|]*\|) \(\) (\S+)\s+((?:[^()]|\((?:[^()]|\([^()]*\))*\))*)\)', out):
    name,sort,val=m.groups()
    if pats and not any(p in name for p in pats): continue
    val=' '.join(val.split())
    if len(val)>160: val=val[:160]+'...'
    print(f'{name} : {sort} = {val}')
