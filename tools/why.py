#!/usr/bin/env python3
# tools/why.py <query.smt2> [depth]: shows which sub-formulas of the failed goal are false in the solver's model.
import subprocess, sys, re
f=sys.argv[1]; depth=int(sys.argv[2]) if len(sys.argv)>2 else 3
src=open(f).read()
def parse(s):
    toks=re.findall(r'\|[^|]*\||[()]|[^\s()]+', s)
    pos=0
    def rd():
        nonlocal pos
        t=toks[pos]; pos+=1
        if t=='(':
            l=[]
            while toks[pos]!=')': l.append(rd())
            pos+=1
            return l
        return t
    out=[]
    while pos<len(toks): out.append(rd())
    return out
def show(e):
    return e if isinstance(e,str) else '('+' '.join(show(x) for x in e)+')'
lines=[l for l in src.split('\n') if l.startswith('(assert (not ')]
goal=parse(lines[-1])[0][1][1]
items=[]
def walk(e,d,path):
    items.append((path,e))
    if d>=depth or isinstance(e,str): return
    if e[0] in ('and','or','=>','not','ite'):
        for i,x in enumerate(e[1:]): walk(x,d+1,path+[i])
walk(goal,0,[])
base=src.replace('(get-model)','')
q=base+'\n'.join('(get-value (%s))'%show(e) for _,e in items)
open('/tmp/why.smt2','w').write(q)
out=subprocess.run(['z3-new','-T:30','/tmp/why.smt2'],capture_output=True,text=True).stdout.split('\n')
print(out[0])
vals=[l for l in out[1:] if l.strip()]
# each get-value prints ((expr value)) possibly multi-line; take last token before '))'
joined='\n'.join(vals)
res=re.findall(r'\s(true|false)\)\)', joined)
for (path,e),v in zip(items,res):
    s=show(e)
    print('  '*len(path)+('[%s] '%v)+(e[0] if not isinstance(e,str) and len(s)>150 else '')+' '+(s[:150]+('...' if len(s)>150 else '')))
