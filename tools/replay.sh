#!/bin/bash
# tools/replay.sh <dir of replaysrc> <go test -run pattern>: runs replay tests of /verif/replaysrc against the
# real code of /repo's working tree without writing to it (go test -overlay).
export GOFLAGS=-mod=mod GOPROXY=off GOSUMDB=off GOTOOLCHAIN=local
D=$1; PAT=${2:-TestVerifReplay}
PKG=$(awk -v d=$D '$1==d{print $2}' /verif/replaysrc/PACKAGES)
[ -z "$PKG" ] && { echo "unknown replay dir $D"; exit 2; }
mkdir -p /verif/out; OV=$(mktemp /verif/out/ov-XXXXXX.json)
python3 - "$D" "$PKG" > $OV <<'PY'
import json,os,sys
d,pkg=sys.argv[1],sys.argv[2]
src='/verif/replaysrc/'+d
print(json.dumps({"Replace":{os.path.join(os.environ.get('VERIF_REPO','/repo'),pkg,'zz_verif_'+f):os.path.join(src,f) for f in os.listdir(src) if f.endswith('_test.go')}}))
PY
cd ${VERIF_REPO:-/repo} && go test -overlay $OV -vet=off -count=1 -timeout 120s -run "$PAT" ./$PKG/ 2>&1 | grep -v 'level=\|^20[0-9][0-9]/' | cut -c1-400
rc=${PIPESTATUS[0]}
rm -f $OV
exit $rc
