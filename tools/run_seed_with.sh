#!/bin/bash
# tools/run_seed_with.sh <seed id> "<checks>": applies one seeded change to a scratch worktree and runs the
# named property checks (any, not only the ones the seed is labelled with) against it.
export GOFLAGS=-mod=mod GOPROXY=off GOSUMDB=off GOTOOLCHAIN=local
id=$1; checks=$2
WT=/tmp/sw-w$id; SV=/tmp/sv-w$id
git -C /repo worktree remove --force $WT >/dev/null 2>&1; rm -rf $WT $SV
git -C /repo worktree add -q --detach $WT HEAD || exit 2
git -C $WT apply /verif/seeded/$id/patch.diff || { git -C /repo worktree remove --force $WT; exit 2; }
mkdir -p $SV; for f in spec known_findings.txt replaysrc tools bin; do ln -s /verif/$f $SV/$f; done
for prop in $checks; do
  out=$(/verif/bin/govc check -repo $WT -verif $SV $prop quick 2>&1)
  echo "$out" | grep '^VIOLATION\|^UNDECIDED' | while read l; do
    f=$(echo "$l" | sed -n 's/.*replay=//p' | sed 's/ .*//')
    o=""; [ -n "$f" ] && o=$(grep -m1 '^failed obligation:' $f | cut -c20-200)
    echo "$id $prop ${l:0:140} :: $o"
  done
  echo "$id $prop $(echo "$out" | tail -1 | cut -c1-120)"
done
git -C /repo worktree remove --force $WT >/dev/null 2>&1; rm -rf $WT $SV
