#!/bin/bash
# tools/run_seeds.sh [id...]: applies each seeded change of /verif/seeded to /repo, runs the listed checks (quick),
# reverts, and writes seeded/RESULTS.tsv (id, check, exit code, violations, first violated obligation).
cd /verif
export GOVC_EVIDENCE_DIR=/tmp/seed-evidence; mkdir -p $GOVC_EVIDENCE_DIR
git -C /repo diff --quiet || { echo "repo dirty"; exit 2; }
sel="$*"
: > /tmp/seed-results.tsv
while IFS=$'\t' read id demo dest args checks; do
  [ -n "$sel" ] && ! echo " $sel " | grep -q " $id " && continue
  git -C /repo apply /verif/seeded/$id/patch.diff || { echo "$id: patch does not apply"; continue; }
  for prop in $checks; do
    out=$(./check $prop quick 2>&1); rc=$?
    n=$(echo "$out" | grep -c '^VIOLATION')
    first=$(echo "$out" | grep -m1 '^VIOLATION' | sed 's/.*replay=//; s/ .*//')
    obl=""; [ -n "$first" ] && obl=$(grep -m1 '^failed obligation:' $first | cut -c20-160)
    printf "%s\t%s\t%s\t%s\t%s\n" "$id" "$prop" "$rc" "$n" "$(basename "$first") $obl" | tee -a /tmp/seed-results.tsv
  done
  git -C /repo checkout -- .
done < seeded/seeds.tsv
if [ -z "$sel" ]; then cp /tmp/seed-results.tsv seeded/RESULTS.tsv; fi
rm -f /tmp/seed-results.tsv.bak
