#!/usr/bin/env python3
# tools/seedtable.py: rewrites the table of DESIGN.md section 10.6 (between the SEEDTABLE markers) from
# seeded/RESULTS.tsv and the seeds' meta.json.
import json,collections,re,os
res=collections.defaultdict(list)
for l in open('/verif/seeded/RESULTS.tsv'):
    p=l.rstrip('\n').split('\t')
    if len(p)>=5: res[p[0]].append((p[1],p[2],p[3],p[4]))
rows=['| seed | change (written by a sub-agent from the property text only) | caught by (check: first failed obligation) |','|---|---|---|']
ids=sorted(d for d in os.listdir('/verif/seeded') if re.match(r'C\d\d-\d+$',d))
caught=0
for id in ids:
    m=json.load(open('/verif/seeded/%s/meta.json'%id))
    s=re.sub(r'\s+',' ',m['summary']).replace('|','/')
    s=s if len(s)<=230 else s[:227]+'...'
    c=[x for x in res.get(id,[]) if x[1]=='1' and 'engine-error' not in x[3]]
    if c: caught+=1
    det='; '.join('%s: %s'%(x[0], re.sub(r'^\d+-','',x[3].split(' ')[0].replace('.txt',''))) for x in c) or '**not caught**'
    rows.append('| %s | %s | %s |'%(id,s,det))
table='\n'.join(rows)+'\n\n%d of %d seeded changes are caught by at least one of their listed checks.\n'%(caught,len(ids))
d=open('/verif/DESIGN.md').read()
a=d.index('<!-- SEEDTABLE -->'); b=d.index('<!-- /SEEDTABLE -->')
d=d[:a]+'<!-- SEEDTABLE -->\n'+table+d[b:]
open('/verif/DESIGN.md','w').write(d)
print(caught,len(ids))
