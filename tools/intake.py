#!/usr/bin/env python3
# tools/intake.py <id> [<id>...]: takes seeded changes a sub-agent left in /tmp/seed-<id>/ (patch.diff, demo
# test(s), DEMO.md with one indented `cp` line per demo file and one indented `go test` line, meta.json),
# confirms each with tools/confirm_seed.sh and, when confirmed, stores it under /verif/seeded/<id>/ and
# registers it in seeded/seeds.tsv (checks: the seed's own property; add more by hand).
import json,os,re,shutil,subprocess,sys
from concurrent.futures import ThreadPoolExecutor
def row(id):
    d='/tmp/seed-'+id
    md=open(d+'/DEMO.md').read()
    cps=re.findall(r'^\s+cp\s+(\S+)\s+(\S+)',md,re.M)
    gt=re.findall(r'^\s+go test (.*)$',md,re.M)
    files=[os.path.basename(a) for a,b in cps]
    dst=cps[0][1].replace('<repo>/','')
    dest=os.path.dirname(dst) if not dst.endswith('/') else dst.rstrip('/')
    args=re.sub(r'\s+',' ',gt[0].replace('-vet=off','').replace('-count=1','').replace('-v ','').replace("'","").strip())
    return [id,','.join(files),dest,args,id.split('-')[0]]
def confirm(r):
    id,demo,dest,args,_=r
    p=subprocess.run(['/verif/tools/confirm_seed.sh','/tmp/seed-'+id,id,demo,dest]+args.split(' '),capture_output=True,text=True)
    return r,p.stdout.strip().split('\n')[-1],p.returncode
rows=[]
for id in sys.argv[1:]:
    try: rows.append(row(id))
    except Exception as e: print('SEED %s: cannot parse DEMO.md (%s)'%(id,e))
with ThreadPoolExecutor(4) as ex: res=list(ex.map(confirm,rows))
lines=open('/verif/seeded/seeds.tsv').read().rstrip('\n').split('\n')
for r,msg,rc in res:
    print(msg)
    if rc!=0: continue
    id,demo,dest,args,checks=r
    d='/verif/seeded/'+id; os.makedirs(d,exist_ok=True)
    for f in ['patch.diff','DEMO.md']+demo.split(','): shutil.copy('/tmp/seed-%s/%s'%(id,f),d)
    m=json.load(open('/tmp/seed-%s/meta.json'%id)); m['id']=id
    m['demo']={'file':demo,'copy_to':dest,'go_test_args':args,'expect':'PASS on the unchanged tree, FAIL with patch.diff applied'}
    m['confirmed']={'by':'main session, tools/confirm_seed.sh in a scratch worktree of /repo HEAD','result':'demo passes unchanged, fails with the change; go build ./... ok; full suite (go test -vet=off -count=1 ./...) passes with the change'}
    json.dump(m,open(d+'/meta.json','w'),indent=1)
    lines=[l for l in lines if not l.startswith(id+'\t')]+['\t'.join(r)]
open('/verif/seeded/seeds.tsv','w').write('\n'.join(sorted(lines))+'\n')
