#!/usr/bin/env python3
# Regenerates /verif/MANIFEST.json from tools/claims.json (claimed properties) and properties.jsonl.
import json, subprocess
props=[json.loads(l)['id'] for l in open('/verif/properties.jsonl')]
claims=json.load(open('/verif/tools/claims.json'))
hooks=subprocess.run(['git','-C','/repo','log','--format=%H %s'],capture_output=True,text=True).stdout.strip().split('\n')
hook_commits=[l.split()[0] for l in hooks if 'verif hooks' in l]
checks=[]
for pid in props:
    c=claims['claimed'].get(pid)
    if not c: continue
    checks.append({"property_id":pid,"quick_cmd":"./check %s quick"%pid,"thorough_cmd":"./check %s thorough"%pid,
      "evidence_file":"/verif/evidence/%s.json"%pid,"replay_cmd_template":"./check %s --replay {path}"%pid,"engine":"govc",
      "level_claimed":{"category":c.get("category","proof"),"text":c["text"],"design_ref":c.get("design_ref","DESIGN.md section 5 "+pid)},
      "level_note":c["note"],"technique":c.get("technique","contract-based deductive verification: weakest-precondition style VCs generated from go/ssa of the real functions against //@ contracts, discharged by z3/cvc5")})
na=[{"property_id":pid,"reason":claims['not_applicable'].get(pid,"not yet claimed: contracts for this property are still being written (DESIGN.md section 6 build order)")} for pid in props if pid not in claims['claimed']]
m={"version":1,"setup_cmd":"cd /verif && ./setup.sh",
 "hooks":{"guard":"verif","enable":"-tags verif (comment-only contract files zz_contracts_verif.go; nothing is compiled from them)","baseline_off_cmd":"cd /repo && GOFLAGS=-mod=mod GOPROXY=off GOSUMDB=off GOTOOLCHAIN=local go test -vet=off -count=1 -timeout 25m ./...","source_commits":hook_commits,"add_only":True},
 "engines":[{"name":"govc","path":"/verif/engine","serves_properties":[c["property_id"] for c in checks],"kind_free_text":"home-grown deductive verifier for Go: symbolic execution of go/ssa of the real functions against Gobra-style //@ contracts kept in guarded comment-only files, SQL text of the store parsed mechanically into pointwise table transformers, spec functions in /verif/spec/*.smt2, every obligation discharged by z3 4.8.12 / z3 5.1.0 / cvc5 1.0 (raced)"}],
 "checks":checks,"notes":claims.get("notes",""),"not_applicable":na}
json.dump(m,open('/verif/MANIFEST.json','w'),indent=1)
print(len(checks),"checks,",len(na),"not applicable")
