#!/bin/sh
# tools/seedcheck.sh <patch.diff> <prop> [<prop>...]: apply the patch to /repo, run the checks, revert.
P=$1; shift
export GOVC_EVIDENCE_DIR=/tmp/seed-evidence; mkdir -p $GOVC_EVIDENCE_DIR
git -C /repo diff --quiet || { echo "repo dirty"; exit 2; }
git -C /repo apply "$P" || { echo "patch does not apply"; exit 2; }
for prop in "$@"; do
  out=$(cd /verif && ./check $prop quick 2>&1)
  rc=$?
  echo "--- $prop rc=$rc: $(echo "$out" | grep -c '^VIOLATION') violations; $(echo "$out" | tail -1)"
  echo "$out" | grep '^VIOLATION' | head -3
done
git -C /repo checkout -- . 
